#!/bin/bash
# usage: tools/confirm_seed.sh <seed-dir containing m1 m2 ...> <ID>
# Confirms each mutant in a scratch worktree of /repo (suite passes with patch, demo fails with patch, demo passes without),
# and copies confirmed ones to /verif/seeded/<ID>-<mk>/
export GOFLAGS=-mod=mod GOPROXY=off GOSUMDB=off GOTOOLCHAIN=local
src="$1"; id="$2"
for m in "$src"/m*; do
  [ -d "$m" ] || continue
  mk=$(basename "$m")
  wt=$(mktemp -d /tmp/confirm_XXXX); rmdir "$wt"
  git -C /repo worktree add --detach "$wt" HEAD >/dev/null 2>&1
  demo_path=$(python3 -c "import json;print(json.load(open('$m/meta.json'))['demo_path'])")
  demo_run=$(python3 -c "import json;print(json.load(open('$m/meta.json'))['demo_run'])")
  res="$id $mk:"
  ( cd "$wt" && git apply "$m/patch.diff" ) || { echo "$res patch does not apply"; git -C /repo worktree remove --force "$wt"; continue; }
  ( cd "$wt" && go build ./... ) >/dev/null 2>&1 || res="$res BUILD-FAIL"
  suite=$( cd "$wt" && go test -vet=off -count=1 ./... 2>&1 | grep -c -E "^(FAIL|---)" )
  res="$res suite_with_patch_failures=$suite"
  cp "$m/demo_test.go" "$wt/$demo_path"
  ( cd "$wt" && timeout 120 $demo_run ) >/tmp/confirm_demo_with.log 2>&1; with=$?
  ( cd "$wt" && git apply -R "$m/patch.diff" )
  ( cd "$wt" && timeout 120 $demo_run ) >/tmp/confirm_demo_without.log 2>&1; without=$?
  res="$res demo_with_patch_exit=$with demo_without_patch_exit=$without"
  if [ "$suite" = "0" ] && [ "$with" != "0" ] && [ "$without" = "0" ]; then
    res="$res CONFIRMED"
    d=/verif/seeded/$id-$mk; mkdir -p "$d"; cp "$m/patch.diff" "$m/demo_test.go" "$d/"
    python3 - "$m/meta.json" "$d/meta.json" "$suite" "$with" "$without" <<'PY'
import json,sys
m=json.load(open(sys.argv[1]))
m['confirmed']={'how':'scratch worktree of /repo HEAD: git apply patch; go test -vet=off -count=1 ./... (0 failures); demo with patch exit!=0; demo without patch exit 0','suite_failures_with_patch':int(sys.argv[3]),'demo_exit_with_patch':int(sys.argv[4]),'demo_exit_without_patch':int(sys.argv[5])}
json.dump(m,open(sys.argv[2],'w'),indent=1)
PY
  else
    res="$res NOT-CONFIRMED"
  fi
  echo "$res"
  git -C /repo worktree remove --force "$wt"
done
