#!/bin/bash
# usage: tools/runpkgtest.sh <package dir relative to /repo> <go test file> [TestName]
# Runs an in-package test against the real code without writing into /repo (go test -overlay).
export GOFLAGS=-mod=mod GOPROXY=off GOSUMDB=off GOTOOLCHAIN=local
pkg="$1"; file="$(realpath "$2")"; name="${3:-.}"
tmp=$(mktemp -d /tmp/overlay_XXXX)
trap 'rm -rf "$tmp"' EXIT
REPO="${REPO:-/repo}"; target="$REPO/$pkg/zz_verif_replay_test.go"
printf '{"Replace":{"%s":"%s"}}' "$target" "$file" > "$tmp/ov.json"
cd "$REPO" && (ulimit -v 8000000; go test ${GOTESTFLAGS:-} -overlay "$tmp/ov.json" -vet=off -count=1 -timeout 60s -run "$name" "./$pkg" 2>&1 | tail -${TAILN:-15})
