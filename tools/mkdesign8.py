#!/usr/bin/env python3
# Regenerates section 8 of DESIGN.md from notes/design8.tmpl.md, known_findings.json and the seeds matrix.
import json,re,sys,os
V='/verif'
tmpl=open(V+'/notes/design8.tmpl.md').read()
kf=json.load(open(V+'/known_findings.json'))
seen=set(); lines=[]
for e in kf:
    if e['status']!='known': continue
    key=e['obligation']
    props=sorted({x['property'] for x in kf if x['status']=='known' and x['obligation']==key})
    if key in seen: continue
    seen.add(key)
    lines.append('* (%s) %s — obligation `%s`, witness `%s`.'%(', '.join(props),e['what'].split(' (the query panics')[0],key,e.get('replay_test') or e.get('witness','')))
known='\n'.join(lines) if lines else '(none)'
mat=V+'/notes/seeds_matrix.txt'
rows=[]
for l in open(mat):
    m=re.match(r'(C\d+-m\d): (.*)',l.strip())
    if not m: continue
    sid,res=m.groups()
    meta=json.load(open(V+'/seeded/%s/meta.json'%sid))
    fn=meta.get('function','')[:70].replace('|','\\|')
    if res.startswith('DETECTED by'):
        ob=re.sub(r' verdict=.*','',res[len('DETECTED by '):])[:110].replace('|','\\|')
        r='caught: `%s`'%ob
    elif 'not claimed' in res: r='property not claimed'
    elif 'no longer applies' in res: r='no longer applies (the code it changes was repaired by a `fix:` commit)'
    else: r='**missed**'
    rows.append('| %s | %s | %s |'%(sid,fn,r))
tab='| seed | function changed | result |\n|---|---|---|\n'+'\n'.join(rows)
nc=sum('caught' in r for r in rows); nm=sum('missed' in r for r in rows)
tab+='\n\nTotals: %d caught, %d missed, %d on unclaimed properties, %d no longer applicable.'%(nc,nm,sum('not claimed' in r for r in rows),sum('no longer' in r for r in rows))
st=open(V+'/notes/selftest.txt').read().strip().splitlines()[-1] if os.path.exists(V+'/notes/selftest.txt') else '(not run yet)'
sec=tmpl.replace('@KNOWN@',known).replace('@SEEDS@',tab).replace('@SELFTEST@','`'+st+'`')
d=open(V+'/DESIGN.md').read()
a=d.find('## 8. As built')
b=d.find('## Appendix A')
if a<0: d=d[:b]+sec+'\n'+d[b:]
else: d=d[:a]+sec+'\n'+d[b:]
open(V+'/DESIGN.md','w').write(d)
print('section 8 written:',len(sec),'chars')
