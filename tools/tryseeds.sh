#!/bin/bash
# usage: tools/tryseeds.sh [filter]   -- applies every confirmed seeded mutant to /repo, runs the check of its property, reverts
cd /verif
if [ -n "$(git -C /repo status --porcelain)" ]; then echo "REFUSING: /repo has uncommitted changes"; exit 2; fi
for d in seeded/*/; do
  n=$(basename "$d"); case "$n" in *"${1:-}"*) ;; *) continue;; esac
  prop=${n%%-*}
  if ! git -C /repo apply --check "$(realpath "$d/patch.diff")" 2>/dev/null; then echo "$n: patch no longer applies (code changed by a fix)"; continue; fi
  git -C /repo apply "$(realpath "$d/patch.diff")"
  if grep -q "\"$prop\"" /verif/claims.json; then
    out=$(timeout 900 bin/govc -prop "$prop" 2>&1); rc=$?
    if [ $rc -ne 0 ] && echo "$out" | grep -q "^VIOLATION"; then echo "$n: DETECTED by $(echo "$out" | grep '^VIOLATION' | head -1 | sed 's/.*obligation=//' | cut -c1-120)"; else echo "$n: missed"; fi
  else
    echo "$n: property $prop not claimed"
  fi
  git -C /repo checkout -- .
done
