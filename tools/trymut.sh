#!/bin/bash
# usage: tools/trymut.sh <patch.diff> <prop> [funcfilter]   -- applies the patch to /repo, runs govc, reverts
set -u
patch="$(realpath "$1")"; prop="$2"; f="${3:-}"
cd /repo || exit 2
if [ -n "$(git status --porcelain)" ]; then echo "REFUSING: /repo has uncommitted changes (commit the contract files first)"; exit 2; fi
git apply "$patch" || { echo "patch does not apply"; exit 2; }
cd /verif
if [ -n "$f" ]; then bin/govc -prop "$prop" -func "$f" 2>&1 | cut -c1-300 | tail -8; else ./check "$prop" quick 2>&1 | cut -c1-300 | tail -8; fi
rc=$?
git -C /repo checkout -- . 
exit $rc
