#!/bin/bash
# usage: tools/mkagentws.sh <name>   -- scratch workspace for a contract-authoring sub-agent: /tmp/ag_<name>/{repo,verif,out}
n="$1"; d=/tmp/ag_$n
rm -rf "$d"; mkdir -p "$d/out"
git -C /repo worktree add --detach "$d/repo" HEAD >/dev/null 2>&1
rsync -a --exclude .git --exclude replays --exclude seeded --exclude evidence /verif/ "$d/verif/"
echo "$d"
