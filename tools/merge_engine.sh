#!/bin/bash
# usage: tools/merge_engine.sh <agent verif dir> <base commit>   -- 3-way merge of an agent's engine changes into /verif/govc
ag="$1"; base="$2"; cd /verif
for f in govc/*.go specs/externs.spec; do
  [ -f "$ag/$f" ] || continue
  git show "$base:$f" > /tmp/merge_base.tmp 2>/dev/null || : > /tmp/merge_base.tmp
  if cmp -s "$ag/$f" /tmp/merge_base.tmp; then continue; fi
  cp "$f" /tmp/merge_mine.tmp
  if git merge-file -p /tmp/merge_mine.tmp /tmp/merge_base.tmp "$ag/$f" > /tmp/merge_out.tmp; then
    cp /tmp/merge_out.tmp "$f"; echo "merged $f"
  else
    cp /tmp/merge_out.tmp "$f.conflict"; echo "CONFLICT in $f (see $f.conflict)"
  fi
done
for f in "$ag"/govc/*.go; do b=$(basename "$f"); [ -f "govc/$b" ] || { cp "$f" "govc/$b"; echo "new file govc/$b"; }; done
