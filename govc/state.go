package main

// Symbolic state: local cells, heap arrays, allocation counter, path condition.

import (
	"fmt"
	"go/types"
	"sort"
	"strings"

	"golang.org/x/tools/go/ssa"
)

type State struct {
	pc    *Term
	cells map[*ssa.Alloc]Val
	heap  map[string]*Term
	alloc *Term
	ghost map[string]*Term
	dead  bool
}

func (s *State) clone() *State {
	n := &State{pc: s.pc, alloc: s.alloc, dead: s.dead}
	n.cells = make(map[*ssa.Alloc]Val, len(s.cells))
	for k, v := range s.cells {
		n.cells[k] = v
	}
	n.heap = make(map[string]*Term, len(s.heap))
	for k, v := range s.heap {
		n.heap[k] = v
	}
	n.ghost = make(map[string]*Term, len(s.ghost))
	for k, v := range s.ghost {
		n.ghost[k] = v
	}
	return n
}

func (s *State) assume(t *Term) {
	if t == nil || t == True {
		return
	}
	if s.pc == True {
		s.pc = t
		return
	}
	if t == False {
		s.pc = False
		return
	}
	// binary nesting on purpose (keeps sharing along paths)
	s.pc = mk("and", SBool, s.pc, t)
}

// Val: a Go-level symbolic value.
type Val struct {
	T   *Term  // scalar / ref / slice / string / map / iface / chan
	LV  *LVal  // pointer to a non-struct location
	Tup []Val  // tuple
	Fn  *FnVal // function value
}

type FnVal struct {
	Fn       *ssa.Function
	Bindings []Val
}

const (
	lvCell = iota
	lvField
	lvElem
	lvGlobal
	lvElemS // element of a slice/array of flat structs: one element heap per field (M:<T>.<f>)
)

type LVal struct {
	Kind   int
	Alloc  *ssa.Alloc
	Ref    *Term
	Heap   string // heap array name for field
	Typ    types.Type
	Slice  *Term // for elem: the slice (base/off) addressed
	Idx    *Term
	Global *ssa.Global
}

// ---- heap naming ----

func typeKey(t types.Type) string {
	return types.TypeString(t, func(p *types.Package) string { return p.Name() })
}

// heap arrays holding floats have one version per float model
func modeSuffix(t types.Type) string {
	if sortOf(t) == SXReal {
		return "#x"
	}
	return ""
}

func fieldHeapName(st types.Type, f *types.Var) string {
	return "F:" + typeKey(st) + "." + f.Name() + modeSuffix(f.Type())
}
func elemHeapName(el types.Type) string { return "M:" + typeKey(el) + modeSuffix(el) }
func mapHeapNames(mt *types.Map) (d, v, l string) {
	k := typeKey(mt) + modeSuffix(mt.Elem())
	return "MD:" + k, "MV:" + k, "ML:" + k
}

type unsupported struct{ msg string }

func unsupp(f string, a ...interface{}) { panic(unsupported{fmt.Sprintf(f, a...)}) }

// sortOf maps a Go type to the SMT sort of its values. Returns nil for types
// that have no first-class SMT representation.
func sortOf(t types.Type) *Sort {
	if t == types.Type(tMathReal) {
		return SReal
	}
	switch u := t.Underlying().(type) {
	case *types.Basic:
		switch {
		case u.Info()&types.IsBoolean != 0:
			return SBool
		case u.Info()&types.IsInteger != 0:
			return SInt
		case u.Info()&types.IsFloat != 0:
			return floatSort
		case u.Info()&types.IsString != 0:
			return SStr
		case u.Info()&types.IsComplex != 0:
			return SCplx
		case u.Kind() == types.UntypedNil:
			return SInt
		}
		return nil
	case *types.Pointer:
		switch u.Elem().Underlying().(type) {
		case *types.Struct, *types.Array:
			return SInt
		}
		return nil
	case *types.Slice:
		return SSlice
	case *types.Map, *types.Chan, *types.Interface, *types.Signature:
		return SInt
	}
	return nil
}

var floatSort = SReal

func zeroOf(t types.Type) *Term {
	s := sortOf(t)
	switch s {
	case SInt:
		return IntLit(0)
	case SBool:
		return False
	case SReal:
		return RealLitStr("0")
	case SXReal:
		return XFin(RealLitStr("0"))
	case SStr:
		return StrLit("")
	case SSlice:
		return NilSlice
	case SCplx:
		return Var("cplx_zero", SCplx)
	}
	unsupp("zero value of type %s", t)
	return nil
}

func heapSort(name string, prog *Program) *Sort {
	if s, ok := prog.heapSorts[name]; ok {
		return s
	}
	panic("unknown heap array " + name)
}

// registerHeap records the sort of a heap array name.
func (p *Program) registerHeap(name string, s *Sort) {
	if old, ok := p.heapSorts[name]; ok {
		if old != s {
			panic(fmt.Sprintf("heap %s registered with two sorts %s %s", name, old.Name, s.Name))
		}
		return
	}
	p.heapSorts[name] = s
}

// heapVarInfo: which heap array a solver constant stands for, and the
// allocation counter that bounds every reference stored in it.
type heapVarInfo struct {
	name  string
	alloc *Term
}

func (p *Program) noteHeapVar(v *Term, name string, alloc *Term) {
	if p.heapVars == nil {
		p.heapVars = map[*Term]heapVarInfo{}
	}
	if _, ok := p.heapVars[v]; !ok {
		p.heapVars[v] = heapVarInfo{name, alloc}
	}
}

func (p *Program) noteHeapType(name string, t types.Type) {
	if p.heapTypes == nil {
		p.heapTypes = map[string]types.Type{}
	}
	p.heapTypes[name] = t
}

// heapInv: the type invariant of every value stored in heap array h (all
// references are allocated, bytes are bytes, slices are well-formed). This is
// an invariant of the memory model: every stored value satisfied it when it
// was stored and the allocation counter only grows.
func (p *Program) heapInv(name string, h *Term, alloc *Term) *Term {
	// cells allocated when the array was introduced hold references bounded by
	// that allocation counter; every cell holds a value in the range of its type.
	two := func(bound []*Term, guardIdx *Term, v *Term, t types.Type) *Term {
		full := typeInv(t, v, alloc)
		pure := typeInv(t, v, nil)
		var out []*Term
		if full != True && full != pure {
			out = append(out, Forall(bound, Implies(Le(guardIdx, alloc), full), []*Term{v}))
		}
		if pure != True {
			out = append(out, Forall(bound, pure, []*Term{v}))
		}
		return And(out...)
	}
	t := p.heapTypes[name]
	switch {
	case strings.HasPrefix(name, "ML:"):
		m := BVar("hm", SInt)
		return Forall([]*Term{m}, Le(IntLit(0), Select(h, m)), []*Term{Select(h, m)})
	case t == nil:
		return True
	case strings.HasPrefix(name, "F:") || strings.HasPrefix(name, "P:") || strings.HasPrefix(name, "FV:"):
		r := BVar("hr", SInt)
		return two([]*Term{r}, r, Select(h, r), t)
	case strings.HasPrefix(name, "M:"):
		b, i := BVar("hb", SInt), BVar("hi", SInt)
		return two([]*Term{b, i}, b, Select(Select(h, b), i), t)
	case strings.HasPrefix(name, "MV:"):
		_, inner, _ := h.Sort.arrayParts()
		ks, _, _ := inner.arrayParts()
		m, k := BVar("hm", SInt), BVar("hk", ks)
		return two([]*Term{m, k}, m, Select(Select(h, m), k), t)
	case strings.HasPrefix(name, "G:"):
		return typeInv(t, h, alloc)
	}
	return True
}

func (p *Program) fieldHeap(st types.Type, f *types.Var) string {
	n := fieldHeapName(st, f)
	p.noteHeapType(n, f.Type())
	s := sortOf(f.Type())
	if s == nil {
		unsupp("field %s of type %s has unsupported type %s", f.Name(), st, f.Type())
	}
	p.registerHeap(n, ArraySort(SInt, s))
	return n
}

func (p *Program) elemHeap(el types.Type) string {
	n := elemHeapName(el)
	s := sortOf(el)
	if s == nil {
		unsupp("element type %s unsupported", el)
	}
	p.registerHeap(n, ArraySort(SInt, ArraySort(SInt, s)))
	p.noteHeapType(n, el)
	return n
}

// flatStructFields: the fields of a struct type all of whose fields have a first-class SMT sort
// (no nested struct, array, func ...); nil otherwise. Slices/arrays of such structs are stored
// field-wise: one element heap M:<T>.<f> per field (struct of arrays).
func flatStructFields(el types.Type) []*types.Var {
	sty, ok := el.Underlying().(*types.Struct)
	if !ok || sty.NumFields() == 0 {
		return nil
	}
	var out []*types.Var
	for i := 0; i < sty.NumFields(); i++ {
		if sortOf(sty.Field(i).Type()) == nil {
			return nil
		}
		out = append(out, sty.Field(i))
	}
	return out
}

func (p *Program) elemFieldHeap(el types.Type, f *types.Var) string {
	n := "M:" + typeKey(el) + "." + f.Name() + modeSuffix(f.Type())
	p.registerHeap(n, ArraySort(SInt, ArraySort(SInt, sortOf(f.Type()))))
	p.noteHeapType(n, f.Type())
	return n
}

// elemHeaps: every element heap of a slice element type (one for a scalar type, one per field for a flat struct)
func (p *Program) elemHeaps(el types.Type) []string {
	if sortOf(el) != nil {
		return []string{p.elemHeap(el)}
	}
	var out []string
	for _, f := range flatStructFields(el) {
		out = append(out, p.elemFieldHeap(el, f))
	}
	return out
}

func (p *Program) mapHeaps(mt *types.Map) (d, v, l string) {
	d, v, l = mapHeapNames(mt)
	ks, vs := sortOf(mt.Key()), sortOf(mt.Elem())
	if ks == nil || vs == nil {
		unsupp("map type %s unsupported", mt)
	}
	p.registerHeap(d, ArraySort(SInt, ArraySort(ks, SBool)))
	p.registerHeap(v, ArraySort(SInt, ArraySort(ks, vs)))
	p.registerHeap(l, ArraySort(SInt, SInt))
	p.noteHeapType(v, mt.Elem())
	return
}

// H returns the current term of a heap array, creating the initial symbol lazily.
func (s *State) H(p *Program, name string) *Term {
	if t, ok := s.heap[name]; ok {
		return t
	}
	t := Var(heapVarName(name)+"@0", heapSort(name, p))
	p.noteHeapVar(t, name, Var("alloc@0", SInt))
	s.heap[name] = t
	return t
}

func heapVarName(name string) string {
	return strings.NewReplacer(" ", "", "*", "ptr.", "[", "<", "]", ">", "(", "<", ")", ">").Replace(name)
}

func (s *State) setH(name string, t *Term) { s.heap[name] = t }

// initial heap symbol (state-independent)
func initHeap(p *Program, name string) *Term {
	t := Var(heapVarName(name)+"@0", heapSort(name, p))
	p.noteHeapVar(t, name, Var("alloc@0", SInt))
	return t
}

func sortedHeapNames(a, b *State) []string {
	m := map[string]bool{}
	for k := range a.heap {
		m[k] = true
	}
	if b != nil {
		for k := range b.heap {
			m[k] = true
		}
	}
	var out []string
	for k := range m {
		out = append(out, k)
	}
	sort.Strings(out)
	return out
}

// ---- type invariants (assumed on every value read from the heap, on
// parameters and on havocked values) ----

func typeInv(t types.Type, v *Term, alloc *Term) *Term {
	switch u := t.Underlying().(type) {
	case *types.Basic:
		switch u.Kind() {
		case types.Uint8:
			return And(Le(IntLit(0), v), Le(v, IntLit(255)))
		case types.Uint16:
			return And(Le(IntLit(0), v), Le(v, IntLit(65535)))
		case types.Uint32:
			return And(Le(IntLit(0), v), Le(v, IntLit(4294967295)))
		case types.Uint, types.Uint64, types.Uintptr:
			return Le(IntLit(0), v)
		case types.Int8:
			return And(Le(IntLit(-128), v), Le(v, IntLit(127)))
		case types.Int16:
			return And(Le(IntLit(-32768), v), Le(v, IntLit(32767)))
		case types.Int32:
			return And(Le(IntLit(-2147483648), v), Le(v, IntLit(2147483647)))
		case types.Int, types.Int64:
			return And(Le(minInt64, v), Le(v, maxInt64))
		}
		return True
	case *types.Pointer, *types.Map, *types.Chan, *types.Interface:
		if v.Sort != SInt {
			return True
		}
		if alloc == nil {
			return Le(IntLit(0), v)
		}
		return And(Le(IntLit(0), v), Le(v, alloc))
	case *types.Slice:
		var ab *Term
		if alloc != nil {
			ab = Le(SBase(v), alloc)
		}
		return And(
			Le(IntLit(0), SBase(v)), ab,
			Le(IntLit(0), SOff(v)), Le(IntLit(0), SLen(v)), Le(SLen(v), SCap(v)), Le(SCap(v), maxInt64), Le(SOff(v), maxInt64),
			Implies(Eq(SBase(v), IntLit(0)), And(Eq(SCap(v), IntLit(0)), Eq(SOff(v), IntLit(0)))))
	}
	return True
}

// spine splits a path condition built by State.assume (left-nested binary
// conjunctions) into its assumptions in order, together with the term standing
// for each prefix.
func spine(t *Term) (elems []*Term, nodes []*Term) {
	for t.Op == "and" && len(t.Args) == 2 {
		elems = append(elems, t.Args[1])
		nodes = append(nodes, t)
		t = t.Args[0]
	}
	elems = append(elems, t)
	nodes = append(nodes, t)
	for i, j := 0, len(elems)-1; i < j; i, j = i+1, j-1 {
		elems[i], elems[j] = elems[j], elems[i]
		nodes[i], nodes[j] = nodes[j], nodes[i]
	}
	return
}

// mergeStates merges states arriving over several edges. The merged path
// condition is  common-prefix && (sel ==> rest of one path) && (!sel ==> rest of
// the other), where sel is the branch condition at which the two paths split
// (or a fresh Boolean when there is no such condition); values are
// ite(sel, ...). Quantified assumptions made along one path therefore stay
// under a propositional guard instead of becoming ite conditions.
// live[i] are the indices (into sts) of the merged states; sels[i] (i >= 1) is
// the selector under which live[i] overrides the states before it.
func mergeStatesSel(p *Program, sts []*State) (out *State, liveIdx []int, sels []*Term) {
	for i, s := range sts {
		if s != nil && !s.dead && s.pc != False {
			liveIdx = append(liveIdx, i)
		}
	}
	if len(liveIdx) == 0 {
		d := &State{pc: False, cells: map[*ssa.Alloc]Val{}, heap: map[string]*Term{}, ghost: map[string]*Term{}, alloc: IntLit(0), dead: true}
		return d, nil, nil
	}
	out = sts[liveIdx[0]].clone()
	sels = []*Term{nil}
	for _, li := range liveIdx[1:] {
		s := sts[li]
		e1, n1 := spine(out.pc)
		e2, _ := spine(s.pc)
		k := 0
		for k < len(e1) && k < len(e2) && e1[k] == e2[k] {
			k++
		}
		var prefix *Term = True
		if k > 0 {
			prefix = n1[k-1]
		}
		r1, r2 := e1[k:], e2[k:] // rest of out / rest of s
		var sel *Term
		if len(r1) > 0 && len(r2) > 0 && r1[0] == Not(r2[0]) && r2[0].closed() {
			sel = r2[0]
			r1, r2 = r1[1:], r2[1:]
		} else {
			sel = Fresh("merge", SBool)
		}
		np := &State{pc: prefix}
		np.assume(Implies(sel, And(r2...)))
		np.assume(Implies(Not(sel), And(r1...)))
		c := sel
		for k, v := range s.cells {
			if ov, ok := out.cells[k]; ok {
				out.cells[k] = mergeVal(c, v, ov)
			}
		}
		for k := range out.cells {
			if _, ok := s.cells[k]; !ok {
				delete(out.cells, k)
			}
		}
		for _, k := range sortedHeapNames(out, s) {
			a, b := s.H(p, k), out.H(p, k)
			out.heap[k] = Ite(c, a, b)
		}
		for k, v := range s.ghost {
			if ov, ok := out.ghost[k]; ok {
				out.ghost[k] = Ite(c, v, ov)
			} else {
				out.ghost[k] = v
			}
		}
		out.alloc = Ite(c, s.alloc, out.alloc)
		out.pc = np.pc
		sels = append(sels, sel)
	}
	return out, liveIdx, sels
}

func mergeStates(p *Program, sts []*State) *State {
	out, _, _ := mergeStatesSel(p, sts)
	return out
}

func mergeVal(c *Term, a, b Val) Val {
	switch {
	case a.T != nil && b.T != nil:
		if a.T.Sort != b.T.Sort {
			if a.T.Sort == SInt && b.T.Sort == SReal {
				a.T = ToReal(a.T)
			} else if a.T.Sort == SReal && b.T.Sort == SInt {
				b.T = ToReal(b.T)
			}
		}
		return Val{T: Ite(c, a.T, b.T)}
	case a.Tup != nil && b.Tup != nil && len(a.Tup) == len(b.Tup):
		out := make([]Val, len(a.Tup))
		for i := range a.Tup {
			out[i] = mergeVal(c, a.Tup[i], b.Tup[i])
		}
		return Val{Tup: out}
	case a.LV != nil && b.LV != nil:
		if sameLV(a.LV, b.LV) {
			return a
		}
		if a.LV.Kind == lvElem && b.LV.Kind == lvElem && a.LV.Heap == b.LV.Heap {
			return Val{LV: &LVal{Kind: lvElem, Heap: a.LV.Heap, Typ: a.LV.Typ, Slice: Ite(c, a.LV.Slice, b.LV.Slice), Idx: Ite(c, a.LV.Idx, b.LV.Idx)}}
		}
		if a.LV.Kind == lvField && b.LV.Kind == lvField && a.LV.Heap == b.LV.Heap {
			return Val{LV: &LVal{Kind: lvField, Heap: a.LV.Heap, Typ: a.LV.Typ, Ref: Ite(c, a.LV.Ref, b.LV.Ref)}}
		}
	case a.Fn != nil && b.Fn != nil:
		if a.Fn.Fn == b.Fn.Fn {
			return a
		}
	case a.T == nil && a.LV == nil && a.Tup == nil && a.Fn == nil:
		return b
	case b.T == nil && b.LV == nil && b.Tup == nil && b.Fn == nil:
		return a
	}
	unsupp("cannot merge values of different shapes")
	return Val{}
}

func sameLV(a, b *LVal) bool {
	return a.Kind == b.Kind && a.Alloc == b.Alloc && a.Ref == b.Ref && a.Heap == b.Heap && a.Slice == b.Slice && a.Idx == b.Idx && a.Global == b.Global
}
