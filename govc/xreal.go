package main

// Extended reals: the "xreal" float model. A float64 is
//   Fin(r) | PInf | NInf | NaN
// with exact real arithmetic on finite values and IEEE-754 rules for the
// special values. Not modelled: rounding, overflow to infinity by magnitude,
// signed zeros (x/0 takes the sign of x only).

import (
	"go/types"
)

const xrealPrelude = `(declare-datatypes ((XReal 0)) (((Fin (fv Real)) (PInf) (NInf) (NaN))))
(define-fun x_isinf ((a XReal)) Bool (or ((_ is PInf) a) ((_ is NInf) a)))
(define-fun x_neg ((a XReal)) XReal (ite ((_ is Fin) a) (Fin (- (fv a))) (ite ((_ is PInf) a) NInf (ite ((_ is NInf) a) PInf NaN))))
(define-fun x_add ((a XReal) (b XReal)) XReal
  (ite (or ((_ is NaN) a) ((_ is NaN) b)) NaN
  (ite (and ((_ is Fin) a) ((_ is Fin) b)) (Fin (+ (fv a) (fv b)))
  (ite ((_ is Fin) a) b
  (ite ((_ is Fin) b) a
  (ite (= a b) a NaN))))))
(define-fun x_sub ((a XReal) (b XReal)) XReal (x_add a (x_neg b)))
(define-fun x_sgn ((a XReal)) Int (ite ((_ is Fin) a) (ite (> (fv a) 0.0) 1 (ite (< (fv a) 0.0) (- 1) 0)) (ite ((_ is PInf) a) 1 (ite ((_ is NInf) a) (- 1) 0))))
(define-fun x_mul ((a XReal) (b XReal)) XReal
  (ite (or ((_ is NaN) a) ((_ is NaN) b)) NaN
  (ite (and ((_ is Fin) a) ((_ is Fin) b)) (Fin (* (fv a) (fv b)))
  (ite (or (= (x_sgn a) 0) (= (x_sgn b) 0)) NaN
  (ite (= (x_sgn a) (x_sgn b)) PInf NInf)))))
(define-fun x_div ((a XReal) (b XReal)) XReal
  (ite (or ((_ is NaN) a) ((_ is NaN) b)) NaN
  (ite (and ((_ is Fin) a) ((_ is Fin) b))
       (ite (not (= (fv b) 0.0)) (Fin (/ (fv a) (fv b))) (ite (= (fv a) 0.0) NaN (ite (> (fv a) 0.0) PInf NInf)))
  (ite ((_ is Fin) a) (Fin 0.0)
  (ite ((_ is Fin) b) (ite (>= (* (x_sgn a) (ite (< (fv b) 0.0) (- 1) 1)) 0) PInf NInf)
  NaN)))))
(define-fun x_lt ((a XReal) (b XReal)) Bool
  (and (not ((_ is NaN) a)) (not ((_ is NaN) b)) (not (= a b))
       (or ((_ is NInf) a) ((_ is PInf) b) (and ((_ is Fin) a) ((_ is Fin) b) (< (fv a) (fv b))))))
(define-fun x_le ((a XReal) (b XReal)) Bool
  (and (not ((_ is NaN) a)) (not ((_ is NaN) b)) (or (= a b) (x_lt a b))))
(define-fun x_eq ((a XReal) (b XReal)) Bool (and (not ((_ is NaN) a)) (= a b)))
(declare-fun x_unknown (XReal XReal) XReal)
(declare-fun m_powneg (Real Real) Real)
`

// tMathReal: the spec-level type "real" (a mathematical real in both float modes)
var tMathReal = types.NewNamed(types.NewTypeName(0, nil, "real", nil), types.Typ[types.Float64], nil)

var (
	XPInf = TB.intern(&Term{Op: "PInf", Sort: SXReal})
	XNInf = TB.intern(&Term{Op: "NInf", Sort: SXReal})
	XNaN  = TB.intern(&Term{Op: "NaN", Sort: SXReal})
)

func XFin(r *Term) *Term {
	r = ToReal(r)
	if r.Op == "fv" {
		// Fin(fv(x)) is x only when x is finite: keep the constructor
	}
	return mk("Fin", SXReal, r)
}

func isXFin(t *Term) (*Term, bool) {
	if t.Op == "Fin" {
		return t.Args[0], true
	}
	return nil, false
}

func XIsFin(a *Term) *Term {
	switch a.Op {
	case "Fin":
		return True
	case "PInf", "NInf", "NaN":
		return False
	}
	return mk("(_ is Fin)", SBool, a)
}
func XIsNaN(a *Term) *Term {
	switch a.Op {
	case "NaN":
		return True
	case "Fin", "PInf", "NInf":
		return False
	}
	return mk("(_ is NaN)", SBool, a)
}
func XIsPInf(a *Term) *Term {
	switch a.Op {
	case "PInf":
		return True
	case "Fin", "NaN", "NInf":
		return False
	}
	return mk("(_ is PInf)", SBool, a)
}
func XIsNInf(a *Term) *Term {
	switch a.Op {
	case "NInf":
		return True
	case "Fin", "NaN", "PInf":
		return False
	}
	return mk("(_ is NInf)", SBool, a)
}

// XVal: the real value of a finite extended real
func XVal(a *Term) *Term {
	if r, ok := isXFin(a); ok {
		return r
	}
	return mk("fv", SReal, a)
}

func toX(a *Term) *Term {
	if a.Sort == SXReal {
		return a
	}
	return XFin(a)
}

func xbin(op string, realOp func(a, b *Term) *Term, a, b *Term) *Term {
	a, b = toX(a), toX(b)
	if ra, ok := isXFin(a); ok {
		if rb, ok := isXFin(b); ok {
			return XFin(realOp(ra, rb))
		}
	}
	return mk(op, SXReal, a, b)
}

func XAdd(a, b *Term) *Term { return xbin("x_add", Add, a, b) }
func XSub(a, b *Term) *Term { return xbin("x_sub", Sub, a, b) }
func XMul(a, b *Term) *Term { return xbin("x_mul", Mul, a, b) }
func XNeg(a *Term) *Term {
	a = toX(a)
	if ra, ok := isXFin(a); ok {
		return XFin(Neg(ra))
	}
	switch a.Op {
	case "PInf":
		return XNInf
	case "NInf":
		return XPInf
	case "NaN":
		return XNaN
	}
	return mk("x_neg", SXReal, a)
}

func XDiv(a, b *Term) *Term {
	a, b = toX(a), toX(b)
	if ra, ok := isXFin(a); ok {
		if rb, ok := isXFin(b); ok {
			zero := RealLitStr("0")
			if rb.Op == "real" && rb.Name != "0" {
				return XFin(RDiv(ra, rb))
			}
			return Ite(Neq(rb, zero), XFin(RDiv(ra, rb)), Ite(Eq(ra, zero), XNaN, Ite(Gt(ra, zero), XPInf, XNInf)))
		}
	}
	return mk("x_div", SXReal, a, b)
}

func XCmp(op string, a, b *Term) *Term {
	a, b = toX(a), toX(b)
	if ra, ok := isXFin(a); ok {
		if rb, ok := isXFin(b); ok {
			return Cmp(op, ra, rb)
		}
	}
	switch op {
	case "<":
		return mk("x_lt", SBool, a, b)
	case "<=":
		return mk("x_le", SBool, a, b)
	case ">":
		return mk("x_lt", SBool, b, a)
	default:
		return mk("x_le", SBool, b, a)
	}
}

func XEq(a, b *Term) *Term {
	a, b = toX(a), toX(b)
	if ra, ok := isXFin(a); ok {
		if rb, ok := isXFin(b); ok {
			return Eq(ra, rb)
		}
	}
	return mk("x_eq", SBool, a, b)
}

// XLn: math.Log
func XLn(a *Term) *Term {
	a = toX(a)
	zero := RealLitStr("0")
	fin := func(r *Term) *Term {
		return Ite(Gt(r, zero), XFin(App("m_ln", SReal, r)), Ite(Eq(r, zero), XNInf, XNaN))
	}
	if ra, ok := isXFin(a); ok {
		return fin(ra)
	}
	return Ite(XIsFin(a), fin(XVal(a)), Ite(XIsPInf(a), XPInf, XNaN))
}

// XExp: math.Exp
func XExp(a *Term) *Term {
	a = toX(a)
	if ra, ok := isXFin(a); ok {
		return XFin(App("m_exp", SReal, ra))
	}
	return Ite(XIsFin(a), XFin(App("m_exp", SReal, XVal(a))), Ite(XIsPInf(a), XPInf, Ite(XIsNInf(a), XFin(RealLitStr("0")), XNaN)))
}

// XPow: math.Pow on finite arguments; special-value combinations other than
// NaN propagation are left unconstrained (x_unknown).
func XPow(a, b *Term) *Term {
	a, b = toX(a), toX(b)
	zero, one := RealLitStr("0"), RealLitStr("1")
	fin := func(x, y *Term) *Term {
		isInt := Eq(ToReal(mk("to_int", SInt, y)), y)
		return Ite(Eq(y, zero), XFin(one),
			Ite(Gt(x, zero), XFin(App("m_pow", SReal, x, y)),
				Ite(Eq(x, zero), Ite(Gt(y, zero), XFin(zero), XPInf),
					Ite(isInt, XFin(App("m_powneg", SReal, x, y)), XNaN))))
	}
	ra, oka := isXFin(a)
	rb, okb := isXFin(b)
	if oka && okb {
		return fin(ra, rb)
	}
	return Ite(And(XIsFin(a), XIsFin(b)), fin(XVal(a), XVal(b)),
		Ite(Or(XIsNaN(b), And(XIsNaN(a), Not(And(XIsFin(b), Eq(XVal(b), zero))))), XNaN, mk("x_unknown", SXReal, a, b)))
}

func XSqrt(a *Term) *Term {
	a = toX(a)
	zero := RealLitStr("0")
	fin := func(r *Term) *Term { return Ite(Ge(r, zero), XFin(App("m_sqrt", SReal, r)), XNaN) }
	if ra, ok := isXFin(a); ok {
		return fin(ra)
	}
	return Ite(XIsFin(a), fin(XVal(a)), Ite(XIsPInf(a), XPInf, XNaN))
}

func XMax(a, b *Term) *Term {
	a, b = toX(a), toX(b)
	// math.Max: NaN if either is NaN; +Inf dominates
	return Ite(Or(XIsNaN(a), XIsNaN(b)), XNaN, Ite(XCmp(">=", a, b), a, b))
}
func XMin(a, b *Term) *Term {
	a, b = toX(a), toX(b)
	return Ite(Or(XIsNaN(a), XIsNaN(b)), XNaN, Ite(XCmp("<=", a, b), a, b))
}
func XAbs(a *Term) *Term {
	a = toX(a)
	if ra, ok := isXFin(a); ok {
		return XFin(Ite(Ge(ra, RealLitStr("0")), ra, Neg(ra)))
	}
	return Ite(XIsFin(a), XFin(Ite(Ge(XVal(a), RealLitStr("0")), XVal(a), Neg(XVal(a)))), Ite(XIsNaN(a), XNaN, XPInf))
}
