package main

// Elaboration of spec expressions into SMT terms against a symbolic state.

import (
	"fmt"
	"go/constant"
	"go/token"
	"go/types"
	"math"
	"math/big"
	"sort"
	"strings"
)

type SVal struct {
	T   *Term
	Typ types.Type // may be nil for untyped math values
}

type Env struct {
	p     *Program
	pkg   *types.Package
	vars  map[string]SVal
	cur   *State
	old   *State
	local func(name string) (SVal, bool)
	depth int
	// loop invariants only: the state at loop entry and its locals, for entry(e)
	entrySt    *State
	entryLocal func(name string) (SVal, bool)
	// oldLocal: name resolution inside old(...) when the function is a closure verified on its own:
	// its captured variables are heap cells of the enclosing frame and are read in the entry state
	oldLocal func(name string) (SVal, bool)
	// when elaborating a pure-function body in probe mode
	probing map[string]bool
	// ensures of a callee with `callback` clauses: function parameter -> symbol of its result function
	fnsyms map[string]*fnSym
}

type fnSym struct {
	name string
	args []*Sort
	ret  *Sort
	typ  types.Type
}

type elabErr struct{ msg string }

func efail(f string, a ...interface{}) { panic(elabErr{fmt.Sprintf(f, a...)}) }

func (e *Env) with(vars map[string]SVal) *Env {
	n := *e
	n.vars = map[string]SVal{}
	for k, v := range e.vars {
		n.vars[k] = v
	}
	for k, v := range vars {
		n.vars[k] = v
	}
	return &n
}

// ElabBool elaborates a clause to a Bool term; errors are returned.
func (e *Env) ElabBool(x SExpr) (t *Term, err error) {
	defer func() {
		if r := recover(); r != nil {
			switch ee := r.(type) {
			case elabErr:
				err = fmt.Errorf("%s", ee.msg)
			case unsupported:
				err = fmt.Errorf("unsupported: %s", ee.msg)
			default:
				panic(r)
			}
		}
	}()
	v := e.elab(x)
	if v.T.Sort != SBool {
		return nil, fmt.Errorf("clause is not boolean (sort %s)", v.T.Sort.Name)
	}
	return v.T, nil
}

func (e *Env) ElabTerm(x SExpr) (v SVal, err error) {
	defer func() {
		if r := recover(); r != nil {
			switch ee := r.(type) {
			case elabErr:
				err = fmt.Errorf("%s", ee.msg)
			case unsupported:
				err = fmt.Errorf("unsupported: %s", ee.msg)
			default:
				panic(r)
			}
		}
	}()
	v = e.elab(x)
	return
}

var (
	tInt    = types.Typ[types.Int]
	tBool   = types.Typ[types.Bool]
	tFloat  = types.Typ[types.Float64]
	tString = types.Typ[types.String]
	tUint8  = types.Typ[types.Uint8]
)

func (e *Env) parseType(txt string) types.Type {
	switch txt {
	case "int":
		return tInt
	case "real":
		return tMathReal
	case "float64":
		return tFloat
	case "bool":
		return tBool
	case "string":
		return tString
	case "byte", "uint8":
		return tUint8
	}
	tv, err := types.Eval(token.NewFileSet(), e.pkg, token.NoPos, txt)
	if err != nil || !tv.IsType() {
		// try other repo packages qualified as pkg.Type
		if i := strings.LastIndex(txt, "."); i > 0 {
			prefix := txt[:i]
			stars := ""
			for strings.HasPrefix(prefix, "*") || strings.HasPrefix(prefix, "[]") {
				if strings.HasPrefix(prefix, "*") {
					stars += "*"
					prefix = prefix[1:]
				} else {
					stars += "[]"
					prefix = prefix[2:]
				}
			}
			for path, pk := range e.p.pkgs {
				if pk.Types != nil && pk.Types.Name() == prefix && strings.HasPrefix(path, e.p.module) {
					tv2, err2 := types.Eval(token.NewFileSet(), pk.Types, token.NoPos, stars+txt[i+1:])
					if err2 == nil && tv2.IsType() {
						return tv2.Type
					}
				}
			}
			// the package itself under its own name (extern contracts are elaborated in the callee's package)
			if e.pkg.Name() == prefix {
				tv2, err2 := types.Eval(token.NewFileSet(), e.pkg, token.NoPos, stars+txt[i+1:])
				if err2 == nil && tv2.IsType() {
					return tv2.Type
				}
			}
			// a package imported by the contract's package (e.g. gonum's mat.Dense)
			for _, imp := range e.pkg.Imports() {
				if imp.Name() == prefix {
					tv2, err2 := types.Eval(token.NewFileSet(), imp, token.NoPos, stars+txt[i+1:])
					if err2 == nil && tv2.IsType() {
						return tv2.Type
					}
				}
			}
		}
		// composite type text mentioning (possibly unexported) types of one other repository package,
		// e.g. map[string]*align.seq: evaluate it inside that package with the qualifier removed
		for path, pk := range e.p.pkgs {
			if pk.Types == nil || !strings.HasPrefix(path, e.p.module) || !strings.Contains(txt, pk.Types.Name()+".") {
				continue
			}
			stripped := strings.ReplaceAll(txt, pk.Types.Name()+".", "")
			if tv3, err3 := types.Eval(token.NewFileSet(), pk.Types, token.NoPos, stripped); err3 == nil && tv3.IsType() {
				return tv3.Type
			}
		}
		efail("cannot resolve type %q in package %s", txt, e.pkg.Name())
	}
	return tv.Type
}

func (e *Env) elab(x SExpr) SVal {
	switch x := x.(type) {
	case SIntL:
		n, ok := new(big.Int).SetString(x.V, 0)
		if !ok {
			efail("bad int literal %s", x.V)
		}
		return SVal{T: IntLitBig(n)}
	case SRealL:
		return SVal{T: RealLitStr(x.V)}
	case SBoolL:
		return SVal{T: BoolLit(x.V), Typ: tBool}
	case SStrL:
		return SVal{T: StrLit(x.V), Typ: tString}
	case SNil:
		return SVal{T: IntLit(0), Typ: types.Typ[types.UntypedNil]}
	case SIdent:
		return e.ident(x.Name)
	case SUnary:
		v := e.elab(x.X)
		switch x.Op {
		case "!":
			if v.T.Sort != SBool {
				efail("! on non-bool")
			}
			return SVal{T: Not(v.T), Typ: tBool}
		case "-":
			return SVal{T: Neg(v.T), Typ: v.Typ}
		}
	case SBinary:
		return e.binary(x)
	case SCond:
		c := e.elab(x.C)
		a, b := e.elab(x.A), e.elab(x.B)
		at, bt := a.T, b.T
		if at.Sort != bt.Sort {
			at, bt, _ = numSort(at, bt)
		}
		typ := a.Typ
		if typ == nil {
			typ = b.Typ
		}
		return SVal{T: Ite(c.T, at, bt), Typ: typ}
	case SQuant:
		vars := map[string]SVal{}
		var bound []*Term
		for _, d := range x.Vars {
			typ := e.parseType(d.Type)
			s := sortOf(typ)
			if s == nil {
				efail("bound variable %s: unsupported type %s", d.Name, d.Type)
			}
			bv := BVar(d.Name, s)
			bound = append(bound, bv)
			vars[d.Name] = SVal{T: bv, Typ: typ}
		}
		body := e.with(vars).elab(x.Body)
		if body.T.Sort != SBool {
			efail("quantifier body is not boolean")
		}
		if x.Kind == "forall" {
			return SVal{T: Forall(bound, body.T), Typ: tBool}
		}
		return SVal{T: Exists(bound, body.T), Typ: tBool}
	case SField:
		// pkg.Name: exported constant or variable of a package imported by the package of the contract
		if id, ok := x.X.(SIdent); ok && e.pkg != nil {
			_, isVar := e.vars[id.Name]
			if !isVar && e.local != nil {
				_, isVar = e.local(id.Name)
			}
			if !isVar && e.pkg.Scope().Lookup(id.Name) == nil {
				for _, imp := range e.pkg.Imports() {
					if imp.Name() == id.Name {
						if obj := imp.Scope().Lookup(x.Name); obj != nil && obj.Exported() {
							return e.pkgObject(obj)
						}
					}
				}
			}
		}
		if ix, ok := x.X.(SIndex); ok {
			// s[i].f on a slice of flat structs: the per-field element heap
			if sv, ok := e.tryElab(ix.X); ok && sv.Typ != nil && sv.T != nil {
				if sl, ok := sv.Typ.Underlying().(*types.Slice); ok && sortOf(sl.Elem()) == nil {
					for _, f := range flatStructFields(sl.Elem()) {
						if f.Name() == x.Name {
							h := e.p.elemFieldHeap(sl.Elem(), f)
							return SVal{T: At(Select(e.cur.H(e.p, h), SBase(sv.T)), SOff(sv.T), e.elab(ix.I).T), Typ: f.Type()}
						}
					}
					efail("no field %s in element type %s", x.Name, sl.Elem())
				}
			}
		}
		return e.field(e.elab(x.X), x.Name)
	case SIndex:
		return e.index(e.elab(x.X), e.elab(x.I))
	case SSlice3:
		v := e.elab(x.X)
		if v.T.Sort != SSlice {
			efail("slicing a non-slice in spec")
		}
		lo := IntLit(0)
		if x.Lo != nil {
			lo = e.elab(x.Lo).T
		}
		hi := SLen(v.T)
		if x.Hi != nil {
			hi = e.elab(x.Hi).T
		}
		return SVal{T: SliceMk(SBase(v.T), Add(SOff(v.T), lo), Sub(hi, lo), Sub(SCap(v.T), lo)), Typ: v.Typ}
	case SCall:
		return e.call(x)
	}
	efail("cannot elaborate %T", x)
	return SVal{}
}

func (e *Env) ident(name string) SVal {
	if v, ok := e.vars[name]; ok {
		return v
	}
	if e.local != nil {
		if v, ok := e.local(name); ok {
			return v
		}
	}
	// package-level constant or variable
	if e.pkg != nil {
		if obj := e.pkg.Scope().Lookup(name); obj != nil {
			return e.pkgObject(obj)
		}
	}
	// qualified through other repo packages handled by SCall/SField on SIdent
	efail("unknown identifier %q", name)
	return SVal{}
}

// unroundConst undoes the float64 rounding of a compile-time constant. The
// float models ignore rounding ("exact reals on finite values"), but go/types
// hands out typed float constants already rounded to float64 (the source
// expression -4.0/3.0 arrives as 6004799503160661/4503599627370496), which would
// make the constants the only rounded values of the model. The constant is
// replaced by the first continued-fraction convergent that rounds to the very
// same float64, provided its denominator is small (<= 10^6); by Legendre's
// theorem this is the source rational p/q whenever q is small. Constants that
// are short binary fractions already (0.25, 2.0) are left alone.
func unroundConst(r *big.Rat) *big.Rat {
	if r.IsInt() || r.Denom().BitLen() <= 20 {
		return r
	}
	f, exact := r.Float64()
	if !exact || f == 0 || math.IsInf(f, 0) {
		return r
	}
	limit := big.NewInt(1000000)
	// convergents h/k of r
	h0, h1 := big.NewInt(0), big.NewInt(1)
	k0, k1 := big.NewInt(1), big.NewInt(0)
	num, den := new(big.Int).Set(r.Num()), new(big.Int).Set(r.Denom())
	for den.Sign() != 0 {
		a, rem := new(big.Int).DivMod(num, den, new(big.Int)) // floor division (den > 0)
		h2 := new(big.Int).Add(new(big.Int).Mul(a, h1), h0)
		k2 := new(big.Int).Add(new(big.Int).Mul(a, k1), k0)
		h0, h1, k0, k1 = h1, h2, k1, k2
		if k1.Cmp(limit) > 0 {
			return r
		}
		c := new(big.Rat).SetFrac(h1, k1)
		if g, _ := c.Float64(); g == f {
			return c
		}
		num, den = den, rem
	}
	return r
}

func constTerm(c constant.Value, typ types.Type) *Term {
	switch c.Kind() {
	case constant.Int:
		n, _ := new(big.Int).SetString(c.ExactString(), 10)
		if typ != nil && sortOf(typ) == SReal {
			return RealLitRat(new(big.Rat).SetInt(n))
		}
		if typ != nil && sortOf(typ) == SXReal {
			return XFin(RealLitRat(new(big.Rat).SetInt(n)))
		}
		return IntLitBig(n)
	case constant.Float:
		r, ok := new(big.Rat).SetString(c.ExactString())
		if ok && (typ == nil || sortOf(typ) == SReal || sortOf(typ) == SXReal) {
			// canonical value of a float constant: round to float64 (what the compiled
			// code holds; an untyped package constant such as DBL_MIN reaches the spec
			// side unrounded), then undo the rounding of short rationals
			if f, _ := r.Float64(); !(f == 0 && r.Sign() != 0) && !math.IsInf(f, 0) {
				r = unroundConst(new(big.Rat).SetFloat64(f))
			}
		}
		if !ok {
			f, _ := constant.Float64Val(c)
			if typ != nil && sortOf(typ) == SXReal {
				return XFin(RealLit(f))
			}
			return RealLit(f)
		}
		if typ != nil && sortOf(typ) == SInt {
			return IntLitBig(r.Num())
		}
		if typ != nil && sortOf(typ) == SXReal {
			return XFin(RealLitRat(r))
		}
		return RealLitRat(r)
	case constant.Bool:
		return BoolLit(constant.BoolVal(c))
	case constant.String:
		return StrLit(constant.StringVal(c))
	}
	unsupp("constant kind %v", c.Kind())
	return nil
}

func (e *Env) pkgObject(obj types.Object) SVal {
	switch o := obj.(type) {
	case *types.Const:
		return SVal{T: constTerm(o.Val(), o.Type()), Typ: o.Type()}
	case *types.Var:
		key := o.Pkg().Path() + "." + o.Name()
		if tb, ok := e.p.tables[key]; ok {
			if !tb.IsMap {
				return SVal{T: tb.SliceVal(), Typ: o.Type()}
			}
			return SVal{T: tb.Ref, Typ: o.Type()}
		}
		s := sortOf(o.Type())
		if s == nil {
			efail("global %s has unsupported type", o.Name())
		}
		name := "G:" + key
		e.p.registerHeap(name, s)
		return SVal{T: e.cur.H(e.p, name), Typ: o.Type()}
	}
	efail("identifier %q is not a constant or variable", obj.Name())
	return SVal{}
}

// structPtr resolves a value to (ref term, struct named type) for field access
func (e *Env) structPtr(v SVal) (*Term, types.Type) {
	t := v.Typ
	if t == nil {
		efail("field access on untyped value")
	}
	if im := e.p.implOf(t); im != nil {
		t = im
	}
	if pt, ok := t.Underlying().(*types.Pointer); ok {
		if _, ok := pt.Elem().Underlying().(*types.Struct); ok {
			return v.T, pt.Elem()
		}
	}
	efail("field access on non-struct-pointer type %s", t)
	return nil, nil
}

func (e *Env) field(v SVal, name string) SVal {
	ref, st := e.structPtr(v)
	obj, index, _ := types.LookupFieldOrMethod(st, true, e.pkgOf(st), name)
	fv, ok := obj.(*types.Var)
	if !ok {
		efail("no field %s in %s", name, st)
	}
	// walk the embedding path
	cur := st
	for i, idx := range index {
		s := cur.Underlying().(*types.Struct)
		f := s.Field(idx)
		if i == len(index)-1 {
			if _, isStruct := f.Type().Underlying().(*types.Struct); isStruct {
				// a struct-valued field lives inside its object: same object id, typed as a pointer to the inner struct
				return SVal{T: ref, Typ: types.NewPointer(f.Type())}
			}
			h := e.p.fieldHeap(cur, f)
			return SVal{T: Select(e.cur.H(e.p, h), ref), Typ: fv.Type()}
		}
		// embedded
		if pt, ok := f.Type().Underlying().(*types.Pointer); ok {
			h := e.p.fieldHeap(cur, f)
			ref = Select(e.cur.H(e.p, h), ref)
			cur = pt.Elem()
		} else {
			cur = f.Type()
		}
	}
	efail("field lookup failed")
	return SVal{}
}

func (e *Env) pkgOf(t types.Type) *types.Package {
	if nt, ok := t.(*types.Named); ok && nt.Obj() != nil {
		return nt.Obj().Pkg()
	}
	return e.pkg
}

func (e *Env) index(x, i SVal) SVal {
	if x.Typ == nil {
		efail("indexing an untyped value")
	}
	switch u := x.Typ.Underlying().(type) {
	case *types.Slice:
		if tb := e.p.tableOfSlice(x.T); tb != nil {
			if sortOf(u.Elem()) == SSlice {
				// [][]T table: the row is the slice over the row object of the literal (as for map[K][]T tables)
				return SVal{T: tb.subSlice(i.T), Typ: u.Elem()}
			}
			return SVal{T: tb.valTerm(i.T), Typ: u.Elem()}
		}
		if t := e.p.tableElem(x.T, i.T); t != nil {
			return SVal{T: t, Typ: u.Elem()}
		}
		h := e.p.elemHeap(u.Elem())
		return SVal{T: At(Select(e.cur.H(e.p, h), SBase(x.T)), SOff(x.T), i.T), Typ: u.Elem()}
	case *types.Basic:
		if u.Info()&types.IsString != 0 {
			return SVal{T: App("str_at", SInt, x.T, i.T), Typ: tUint8}
		}
	case *types.Map:
		key := ""
		if tb := e.p.tableOfRef(x.T); tb != nil {
			key = tb.Key
			if sortOf(u.Elem()) == SSlice {
				return SVal{T: tb.subSlice(i.T), Typ: u.Elem()}
			}
			return SVal{T: tb.valTerm(i.T), Typ: u.Elem()}
		}
		_ = key
		_, hv, _ := e.p.mapHeaps(u)
		hd, _, _ := e.p.mapHeaps(u)
		in := And(Neq(x.T, IntLit(0)), Select(Select(e.cur.H(e.p, hd), x.T), coerce(i.T, sortOf(u.Key()))))
		val := Select(Select(e.cur.H(e.p, hv), x.T), coerce(i.T, sortOf(u.Key())))
		return SVal{T: Ite(in, val, zeroOf(u.Elem())), Typ: u.Elem()}
	case *types.Pointer:
		if at, ok := u.Elem().Underlying().(*types.Array); ok {
			h := e.p.elemHeap(at.Elem())
			return SVal{T: At(Select(e.cur.H(e.p, h), x.T), IntLit(0), i.T), Typ: at.Elem()}
		}
	}
	efail("cannot index type %s", x.Typ)
	return SVal{}
}

func coerce(t *Term, s *Sort) *Term {
	if t.Sort == s {
		return t
	}
	if t.Sort == SInt && s == SReal {
		return ToReal(t)
	}
	efail("sort mismatch: have %s want %s", t.Sort.Name, s.Name)
	return nil
}

func (e *Env) binary(x SBinary) SVal {
	switch x.Op {
	case "&&":
		a, b := e.elab(x.X), e.elab(x.Y)
		return SVal{T: And(needBool(a), needBool(b)), Typ: tBool}
	case "||":
		a, b := e.elab(x.X), e.elab(x.Y)
		return SVal{T: Or(needBool(a), needBool(b)), Typ: tBool}
	case "==>":
		a, b := e.elab(x.X), e.elab(x.Y)
		return SVal{T: Implies(needBool(a), needBool(b)), Typ: tBool}
	case "<==>":
		a, b := e.elab(x.X), e.elab(x.Y)
		return SVal{T: Eq(needBool(a), needBool(b)), Typ: tBool}
	}
	a, b := e.elab(x.X), e.elab(x.Y)
	typ := a.Typ
	if typ == nil || isUntypedNil(typ) {
		typ = b.Typ
	}
	if (a.T.Sort == SXReal || b.T.Sort == SXReal) && !((x.Op == "==" || x.Op == "!=") && a.T.Sort == b.T.Sort) {
		efail("operator %s on a float64 value in the extended-real model: use fin(x), isfin(x), isnan(x), ispinf(x)", x.Op)
	}
	switch x.Op {
	case "==", "!=":
		var r *Term
		at, bt := a.T, b.T
		if isUntypedNil(a.Typ) && bt.Sort == SSlice {
			r = Eq(SBase(bt), IntLit(0))
		} else if isUntypedNil(b.Typ) && at.Sort == SSlice {
			r = Eq(SBase(at), IntLit(0))
		} else {
			if at.Sort != bt.Sort {
				at, bt, _ = numSort(at, bt)
			}
			r = Eq(at, bt)
		}
		if x.Op == "!=" {
			r = Not(r)
		}
		return SVal{T: r, Typ: tBool}
	case "<", "<=", ">", ">=":
		if a.T.Sort == SStr && b.T.Sort == SStr {
			// strings: the same uninterpreted order the code's comparisons use (str_lt)
			lt, gt := App("str_lt", SBool, a.T, b.T), App("str_lt", SBool, b.T, a.T)
			switch x.Op {
			case "<":
				return SVal{T: lt, Typ: tBool}
			case ">":
				return SVal{T: gt, Typ: tBool}
			case "<=":
				return SVal{T: Not(gt), Typ: tBool}
			}
			return SVal{T: Not(lt), Typ: tBool}
		}
		return SVal{T: Cmp(x.Op, a.T, b.T), Typ: tBool}
	case "+":
		if a.T.Sort == SStr {
			return SVal{T: App("str_cat", SStr, a.T, b.T), Typ: tString}
		}
		return SVal{T: Add(a.T, b.T), Typ: typ}
	case "-":
		return SVal{T: Sub(a.T, b.T), Typ: typ}
	case "*":
		return SVal{T: Mul(a.T, b.T), Typ: typ}
	case "/":
		if a.T.Sort == SReal || b.T.Sort == SReal {
			return SVal{T: RDiv(a.T, b.T), Typ: tFloat}
		}
		return SVal{T: GoDiv(a.T, b.T), Typ: typ}
	case "%":
		return SVal{T: GoMod(a.T, b.T), Typ: typ}
	case "&":
		return SVal{T: App("band8", SInt, a.T, b.T), Typ: typ}
	case "|":
		return SVal{T: App("bor8", SInt, a.T, b.T), Typ: typ}
	}
	efail("operator %s not supported in specs", x.Op)
	return SVal{}
}

func isUntypedNil(t types.Type) bool {
	b, ok := t.(*types.Basic)
	return ok && b.Kind() == types.UntypedNil
}

func needBool(v SVal) *Term {
	if v.T.Sort != SBool {
		efail("expected a boolean operand, got %s", v.T.Sort.Name)
	}
	return v.T
}

func (e *Env) call(x SCall) SVal {
	argn := func(n int) {
		if len(x.Args) != n {
			efail("%s expects %d argument(s)", x.Fn, n)
		}
	}
	switch x.Fn {
	case "fnres":
		// fnres(fn, a1, ..., an): what the function-typed parameter fn returned for these arguments (see `callback`)
		if len(x.Args) < 1 {
			efail("fnres(fn, args...)")
		}
		id, ok := x.Args[0].(SIdent)
		if !ok || e.fnsyms == nil || e.fnsyms[id.Name] == nil {
			efail("fnres: first argument must be a function parameter with a `callback` clause")
		}
		fs := e.fnsyms[id.Name]
		if len(x.Args)-1 != len(fs.args) {
			efail("fnres(%s, ...): %d argument(s) expected", id.Name, len(fs.args))
		}
		var as []*Term
		for i, a := range x.Args[1:] {
			as = append(as, coerce(e.elab(a).T, fs.args[i]))
		}
		return SVal{T: App(fs.name, fs.ret, as...), Typ: fs.typ}
	case "old":
		argn(1)
		if e.old == nil {
			efail("old() not available here")
		}
		n := *e
		n.cur = e.old
		// old() changes the heap that is read; local variables keep their
		// current values (parameters are bound to their entry values anyway);
		// captured variables of a closure verified on its own are shared cells: entry value
		if e.oldLocal != nil {
			n.local = e.oldLocal
		}
		return n.elab(x.Args[0])
	case "entry":
		// entry(e): e evaluated in the state at the entry of the loop whose
		// invariant is being elaborated (heap and locals as at loop entry)
		argn(1)
		if e.entrySt == nil {
			efail("entry() is only available in loop invariants")
		}
		n := *e
		n.cur = e.entrySt
		n.local = e.entryLocal
		return n.elab(x.Args[0])
	case "len":
		argn(1)
		v := e.elab(x.Args[0])
		switch {
		case v.T.Sort == SSlice:
			return SVal{T: SLen(v.T), Typ: tInt}
		case v.T.Sort == SStr:
			return SVal{T: App("str_len", SInt, v.T), Typ: tInt}
		case v.Typ != nil:
			if mt, ok := v.Typ.Underlying().(*types.Map); ok {
				if tb := e.p.tableOfRef(v.T); tb != nil {
					return SVal{T: IntLit(int64(len(tb.Entries))), Typ: tInt}
				}
				_, _, hl := e.p.mapHeaps(mt)
				// as in the code (calls.go, builtin len): a nil map has length 0
				return SVal{T: Ite(Eq(v.T, IntLit(0)), IntLit(0), Select(e.cur.H(e.p, hl), v.T)), Typ: tInt}
			}
		}
		efail("len of unsupported value")
	case "cap":
		argn(1)
		v := e.elab(x.Args[0])
		return SVal{T: SCap(v.T), Typ: tInt}
	case "base":
		argn(1)
		return SVal{T: SBase(e.elab(x.Args[0]).T), Typ: tInt}
	case "off":
		argn(1)
		return SVal{T: SOff(e.elab(x.Args[0]).T), Typ: tInt}
	case "fresh":
		argn(1)
		if e.old == nil {
			efail("fresh() needs a two-state context")
		}
		v := e.elab(x.Args[0])
		if v.T.Sort == SSlice {
			return SVal{T: Gt(SBase(v.T), e.old.alloc), Typ: tBool}
		}
		return SVal{T: Gt(v.T, e.old.alloc), Typ: tBool}
	case "allocated":
		argn(1)
		v := e.elab(x.Args[0])
		if v.T.Sort == SSlice {
			return SVal{T: Le(SBase(v.T), e.cur.alloc), Typ: tBool}
		}
		return SVal{T: Le(v.T, e.cur.alloc), Typ: tBool}
	case "oldallocated":
		argn(1)
		v := e.elab(x.Args[0])
		if v.T.Sort == SSlice {
			return SVal{T: Le(SBase(v.T), e.old.alloc), Typ: tBool}
		}
		return SVal{T: Le(v.T, e.old.alloc), Typ: tBool}
	case "has":
		argn(2)
		m, k := e.elab(x.Args[0]), e.elab(x.Args[1])
		if tb := e.p.tableOfRef(m.T); tb != nil {
			return SVal{T: tb.domTerm(k.T), Typ: tBool}
		}
		mt, ok := m.Typ.Underlying().(*types.Map)
		if !ok {
			efail("has() on non-map")
		}
		hd, _, _ := e.p.mapHeaps(mt)
		// a nil map has no key
		return SVal{T: And(Neq(m.T, IntLit(0)), Select(Select(e.cur.H(e.p, hd), m.T), coerce(k.T, sortOf(mt.Key())))), Typ: tBool}
	case "real":
		argn(1)
		return SVal{T: ToReal(e.elab(x.Args[0]).T), Typ: tMathReal}
	case "fin":
		// the real value of a float (identity in the exact-real float model)
		argn(1)
		v := e.elab(x.Args[0])
		if v.T.Sort == SXReal {
			return SVal{T: XVal(v.T), Typ: tMathReal}
		}
		return SVal{T: ToReal(v.T), Typ: tMathReal}
	case "isfin", "isnan", "ispinf", "isninf", "isinf":
		argn(1)
		v := e.elab(x.Args[0])
		if v.T.Sort != SXReal {
			return SVal{T: BoolLit(x.Fn == "isfin"), Typ: tBool}
		}
		switch x.Fn {
		case "isfin":
			return SVal{T: XIsFin(v.T), Typ: tBool}
		case "isnan":
			return SVal{T: XIsNaN(v.T), Typ: tBool}
		case "ispinf":
			return SVal{T: XIsPInf(v.T), Typ: tBool}
		case "isninf":
			return SVal{T: XIsNInf(v.T), Typ: tBool}
		}
		return SVal{T: Or(XIsPInf(v.T), XIsNInf(v.T)), Typ: tBool}
	case "tofloat":
		// a real as a (finite) float of the current float model
		argn(1)
		v := e.elab(x.Args[0])
		if floatSort == SXReal {
			return SVal{T: XFin(v.T), Typ: tFloat}
		}
		return SVal{T: ToReal(v.T), Typ: tFloat}
	case "floor":
		argn(1)
		return SVal{T: mk("to_int", SInt, ToReal(e.elab(x.Args[0]).T)), Typ: tInt}
	case "abs":
		argn(1)
		v := e.elab(x.Args[0])
		return SVal{T: Ite(Ge(v.T, IntLit(0)), v.T, Neg(v.T)), Typ: v.Typ}
	case "min", "max":
		argn(2)
		a, b := e.elab(x.Args[0]), e.elab(x.Args[1])
		at, bt, _ := numSort(a.T, b.T)
		if x.Fn == "min" {
			return SVal{T: Ite(Le(at, bt), at, bt), Typ: a.Typ}
		}
		return SVal{T: Ite(Ge(at, bt), at, bt), Typ: a.Typ}
	case "ln", "exp", "sqrt":
		argn(1)
		return SVal{T: App("m_"+x.Fn, SReal, ToReal(e.elab(x.Args[0]).T)), Typ: tFloat}
	case "pow":
		argn(2)
		return SVal{T: App("m_pow", SReal, ToReal(e.elab(x.Args[0]).T), ToReal(e.elab(x.Args[1]).T)), Typ: tFloat}
	case "upper", "lower":
		argn(1)
		return SVal{T: App("to"+x.Fn+"8", SInt, e.elab(x.Args[0]).T), Typ: tUint8}
	case "ones8":
		argn(1)
		return SVal{T: App("ones8", SInt, e.elab(x.Args[0]).T), Typ: tInt}
	case "godiv":
		argn(2)
		return SVal{T: GoDiv(e.elab(x.Args[0]).T, e.elab(x.Args[1]).T), Typ: tInt}
	case "ediv":
		argn(2)
		return SVal{T: EDiv(e.elab(x.Args[0]).T, e.elab(x.Args[1]).T), Typ: tInt}
	case "emod":
		argn(2)
		return SVal{T: EMod(e.elab(x.Args[0]).T, e.elab(x.Args[1]).T), Typ: tInt}
	case "fsum":
		// fsum(s, n): the sum of the real values of s[0..n) in the current heap
		argn(2)
		sv, nv := e.elab(x.Args[0]), e.elab(x.Args[1])
		var sl *types.Slice
		if sv.Typ != nil {
			sl, _ = sv.Typ.Underlying().(*types.Slice)
		}
		if sl == nil {
			efail("fsum(s, n): s must be a slice")
		}
		if b, ok := sl.Elem().Underlying().(*types.Basic); !ok || b.Info()&types.IsFloat == 0 {
			efail("fsum(s, n): s must be a slice of floats")
		}
		row := Select(e.cur.H(e.p, e.p.elemHeap(sl.Elem())), SBase(sv.T))
		return SVal{T: FSum(row, SOff(sv.T), coerce(nv.T, SInt)), Typ: tMathReal}
	case "sameslice":
		argn(2)
		return SVal{T: Eq(e.elab(x.Args[0]).T, e.elab(x.Args[1]).T), Typ: tBool}
	case "streq":
		// streq(a, b): a == b on strings, written as a function application so that it triggers the
		// extensionality axiom (equal lengths and equal bytes make equal strings) for this pair
		argn(2)
		return SVal{T: App("str_eq", SBool, e.elab(x.Args[0]).T, e.elab(x.Args[1]).T), Typ: tBool}
	case "strrepl1":
		// strrepl1(s, a, b): the string s with every byte a replaced by the byte b (what strings.ReplaceAll
		// computes for a one-byte pattern and a one-byte replacement), as a function of its arguments
		argn(3)
		return SVal{T: App("str_repl1", SStr, e.elab(x.Args[0]).T, e.elab(x.Args[1]).T, e.elab(x.Args[2]).T), Typ: tString}
	case "strof":
		// strof(s): the conversion string(s) of a byte slice, read in the current heap (the term the code's
		// conversion produces)
		argn(1)
		sv := e.elab(x.Args[0])
		var sl *types.Slice
		if sv.Typ != nil {
			sl, _ = sv.Typ.Underlying().(*types.Slice)
		}
		if sl == nil {
			efail("strof(s): s must be a []uint8")
		}
		if b, ok := sl.Elem().Underlying().(*types.Basic); !ok || b.Kind() != types.Uint8 {
			efail("strof(s): s must be a []uint8")
		}
		return SVal{T: App("str_of", SStr, Select(e.cur.H(e.p, e.p.elemHeap(sl.Elem())), SBase(sv.T)), SOff(sv.T), SLen(sv.T)), Typ: tString}
	case "ghost":
		argn(1)
		id, ok := x.Args[0].(SIdent)
		if !ok {
			efail("ghost(name)")
		}
		if t, ok := e.cur.ghost[id.Name]; ok {
			return SVal{T: t, Typ: tInt}
		}
		return SVal{T: Var("ghost."+id.Name+"@0", SInt), Typ: tInt}
	case "gfield":
		// gfield(obj, name): ghost integer field `name` of object obj (specification-only state, e.g. the
		// number of runes left in a bufio.Reader); written only by assumed contracts of library functions
		argn(2)
		o := e.elab(x.Args[0])
		id, ok := x.Args[1].(SIdent)
		if !ok {
			efail("gfield(obj, name): name must be an identifier")
		}
		h := ghostFieldHeap(e.p, id.Name, false)
		return SVal{T: Select(e.cur.H(e.p, h), o.T), Typ: tInt}
	case "str_atoi":
		argn(1)
		return SVal{T: App("str_atoi", SInt, e.elab(x.Args[0]).T), Typ: tInt}
	case "str_itoa":
		argn(1)
		return SVal{T: App("str_itoa", SStr, e.elab(x.Args[0]).T), Typ: tString}
	case "cur":
		// cur(p): the current value of a parameter that the function reassigns (a bare
		// parameter name denotes its value at entry)
		argn(1)
		id, ok := x.Args[0].(SIdent)
		if !ok || e.local == nil {
			efail("cur(name) needs a parameter name and is only available where locals are in scope")
		}
		if v, ok := e.local(id.Name); ok {
			return v
		}
		efail("cur(%s): no such local", id.Name)
	case "deref":
		// deref(p): the value behind a pointer to a scalar (a parameter `p *int`): cell p of the heap P:<type>
		argn(1)
		pv := e.elab(x.Args[0])
		h, et := derefHeap(e.p, pv)
		return SVal{T: Select(e.cur.H(e.p, h), pv.T), Typ: et}
	case "gf", "gfa":
		// ghost fields: gf(name, x) is an int-valued ghost field of object x, gfa(name, x, k) the k-th cell of
		// an int-array-valued one. They exist only in contracts (model state of opaque library objects such
		// as the content of a bytes.Buffer); they live in heap arrays of their own and obey modifies clauses.
		if x.Fn == "gf" {
			argn(2)
		} else {
			argn(3)
		}
		id, ok := x.Args[0].(SIdent)
		if !ok {
			efail("%s(name, object, ...): the first argument is the name of the ghost field", x.Fn)
		}
		obj := e.elab(x.Args[1])
		if obj.T.Sort != SInt {
			efail("%s: the object must be a reference", x.Fn)
		}
		h := ghostFieldHeap(e.p, id.Name, x.Fn == "gfa")
		if x.Fn == "gf" {
			return SVal{T: Select(e.cur.H(e.p, h), obj.T), Typ: tInt}
		}
		return SVal{T: Select(Select(e.cur.H(e.p, h), obj.T), e.elab(x.Args[2]).T), Typ: tInt}
	case "visited":
		argn(1)
		v, ok := e.vars["$vis"]
		if !ok {
			efail("visited(k) is only available in the invariants of a loop ranging over a map")
		}
		k := e.elab(x.Args[0])
		ks, _, _ := v.T.Sort.arrayParts()
		return SVal{T: Select(v.T, coerce(k.T, ks)), Typ: tBool}
	case "itersum":
		// itersum(): in the invariants of a loop ranging over an integer-valued map, the sum of the values of the keys visited so far
		argn(0)
		v, ok := e.vars["$isum"]
		if !ok {
			efail("itersum() is only available in the invariants of a loop ranging over a map with integer values")
		}
		return v
	case "msum":
		// msum(m): the sum of the values of the integer-valued map m in the current heap
		argn(1)
		m := e.elab(x.Args[0])
		mt, ok := m.Typ.Underlying().(*types.Map)
		if !ok || sortOf(mt.Elem()) != SInt || sortOf(mt.Key()) == nil {
			efail("msum(m): m must be a map with integer values")
		}
		d, vv, _ := e.p.mapHeaps(mt)
		return SVal{T: MapSum(Select(e.cur.H(e.p, d), m.T), Select(e.cur.H(e.p, vv), m.T)), Typ: tInt}
	case "alloc":
		argn(0)
		return SVal{T: e.cur.alloc, Typ: tInt}
	}
	if strings.HasPrefix(x.Fn, "visited") && len(x.Fn) > len("visited") {
		// visited<n>(k): the ghost visited set of the map-range loop with ordinal n
		if v, ok := e.vars["$vis"+x.Fn[len("visited"):]]; ok {
			argn(1)
			k := e.elab(x.Args[0])
			ks, _, _ := v.T.Sort.arrayParts()
			return SVal{T: Select(v.T, coerce(k.T, ks)), Typ: tBool}
		}
	}
	if pf, ok := e.p.pures[x.Fn]; ok {
		return e.pureCall(pf, x)
	}
	// qualified constant pkg.NAME parsed as call? no. Qualified call to other package's pure: strip prefix
	if i := strings.Index(x.Fn, "."); i > 0 {
		if pf, ok := e.p.pures[x.Fn[i+1:]]; ok {
			return e.pureCall(pf, x)
		}
	}
	efail("unknown spec function %q", x.Fn)
	return SVal{}
}

// ---- pure functions ----

type pureInfo struct {
	pf        *PureFunc
	paramTyps []types.Type
	retTyp    types.Type
	heaps     []string // heap arrays read by the body (recursive/opaque functions)
	symbol    string
	ready     bool
	paramVars []*Term
	heapVars  []*Term
	body      *Term // template over paramVars/heapVars
	axiom     *Term
}

func (e *Env) pureEnvPkg(pf *PureFunc) *types.Package {
	if pk, ok := e.p.pkgs[pf.Pkg]; ok && pk.Types != nil {
		return pk.Types
	}
	return e.pkg
}

func (e *Env) pureCall(pf *PureFunc, x SCall) SVal {
	if len(x.Args) != len(pf.Params) {
		efail("%s expects %d arguments", pf.Name, len(pf.Params))
	}
	pe := &Env{p: e.p, pkg: e.pureEnvPkg(pf)}
	var args []SVal
	for i, a := range x.Args {
		v := e.elab(a)
		pt := pe.parseType(pf.Params[i].Type)
		ps := sortOf(pt)
		if ps == nil {
			efail("pure func %s: unsupported parameter type %s", pf.Name, pf.Params[i].Type)
		}
		v.T = coerce(v.T, ps)
		v.Typ = pt
		args = append(args, v)
	}
	retTyp := pe.parseType(pf.Ret)
	if pf.Body != nil && !pf.Recursive && !pf.Opaque {
		// macro expansion in the current state
		if e.depth > 40 {
			efail("pure function expansion too deep (%s)", pf.Name)
		}
		vars := map[string]SVal{}
		for i, d := range pf.Params {
			vars[d.Name] = args[i]
		}
		ne := &Env{p: e.p, pkg: pe.pkg, vars: vars, cur: e.cur, old: e.old, depth: e.depth + 1, probing: e.probing}
		r := ne.elab(pf.Body)
		r.T = coerce(r.T, sortOf(retTyp))
		r.Typ = retTyp
		return r
	}
	// uninterpreted or recursive: SMT function with implicit heap parameters
	info := e.p.pureSymbol(pf, pe)
	if e.probing != nil && e.probing[pf.Name] {
		// during heap discovery of a recursive body: result placeholder
		return SVal{T: Fresh("probe."+pf.Name, sortOf(retTyp)), Typ: retTyp}
	}
	var ts []*Term
	for _, a := range args {
		ts = append(ts, a.T)
	}
	for _, h := range info.heaps {
		ts = append(ts, e.cur.H(e.p, h))
	}
	return SVal{T: App(info.symbol, sortOf(retTyp), ts...), Typ: retTyp}
}

func (p *Program) pureSymbol(pf *PureFunc, pe *Env) *pureInfo {
	key := pf.Name
	if floatSort == SXReal {
		key += ".x"
	}
	if info, ok := p.pureDecl[key]; ok {
		return info
	}
	info := &pureInfo{pf: pf, symbol: "pf." + key}
	p.pureDecl[key] = info
	for _, d := range pf.Params {
		info.paramTyps = append(info.paramTyps, pe.parseType(d.Type))
	}
	info.retTyp = pe.parseType(pf.Ret)
	mkProbe := func() (*State, map[string]SVal) {
		st := &State{pc: True, heap: map[string]*Term{}, ghost: map[string]*Term{}, alloc: Var("$probe.alloc", SInt)}
		vars := map[string]SVal{}
		info.paramVars = nil
		for i, d := range pf.Params {
			v := Var("$p."+pf.Name+"."+d.Name, sortOf(info.paramTyps[i]))
			info.paramVars = append(info.paramVars, v)
			vars[d.Name] = SVal{T: v, Typ: info.paramTyps[i]}
		}
		return st, vars
	}
	if pf.Body != nil {
		// pass 1: discover heaps
		st, vars := mkProbe()
		probing := map[string]bool{pf.Name: true}
		ne := &Env{p: p, pkg: pe.pkg, vars: vars, cur: st, probing: probing}
		ne.elab(pf.Body)
		for _, h := range sortedHeapNames(st, nil) {
			info.heaps = append(info.heaps, h)
		}
		// pass 2: real body over placeholder heaps
		st2, vars2 := mkProbe()
		for _, h := range info.heaps {
			hv := Var("$h."+pf.Name+"."+heapVarName(h), heapSort(h, p))
			st2.heap[h] = hv
			info.heapVars = append(info.heapVars, hv)
		}
		ne2 := &Env{p: p, pkg: pe.pkg, vars: vars2, cur: st2}
		b := ne2.elab(pf.Body)
		info.body = coerce(b.T, sortOf(info.retTyp))
		if len(st2.heap) != len(info.heaps) {
			panic("pure function heap discovery unstable: " + pf.Name)
		}
	}
	var argSorts []*Sort
	for _, t := range info.paramTyps {
		argSorts = append(argSorts, sortOf(t))
	}
	for _, h := range info.heaps {
		argSorts = append(argSorts, heapSort(h, p))
	}
	TB.funs[info.symbol] = &FunDecl{Name: info.symbol, Args: argSorts, Ret: sortOf(info.retTyp)}
	TB.funOrd = append(TB.funOrd, info.symbol)
	info.ready = true
	return info
}

// opaqueAxioms: pattern-guarded definitional axioms of the opaque (non-recursive)
// spec functions among ops.
func (p *Program) opaqueAxioms(ops map[string]bool) []*Term {
	var out []*Term
	var names []string
	for n := range p.pureDecl {
		names = append(names, n)
	}
	sort.Strings(names)
	for _, n := range names {
		info := p.pureDecl[n]
		if !info.pf.Opaque || info.body == nil || !ops[info.symbol] {
			continue
		}
		if info.axiom == nil {
			m := map[*Term]*Term{}
			var bound []*Term
			for _, pv := range info.paramVars {
				b := BVar("a", pv.Sort)
				m[pv] = b
				bound = append(bound, b)
			}
			for _, hv := range info.heapVars {
				b := BVar("H", hv.Sort)
				m[hv] = b
				bound = append(bound, b)
			}
			app := App(info.symbol, sortOf(info.retTyp), bound...)
			if info.pf.Sealed && app.Sort == SBool {
				b := Subst(info.body, m)
				info.axiom = Forall(bound, And(Implies(app, b), Implies(b, app)), []*Term{app})
			} else {
				info.axiom = Forall(bound, Eq(app, Subst(info.body, m)), []*Term{app})
			}
		}
		out = append(out, info.axiom)
	}
	return out
}

// fsumUnfold: the defining recursion of the built-in slice sum at its ground
// applications: fsum(A,o,n) = (n <= 0 ? 0 : fsum(A,o,n-1) + val(A[o+n-1])),
// repeated `depth` times on the newly introduced applications.
func fsumUnfold(ts []*Term, depth int) []*Term {
	var out []*Term
	done := map[*Term]bool{}
	seen := map[*Term]bool{}
	frontier := ts
	for d := 0; d < depth; d++ {
		var apps []*Term
		for _, t := range frontier {
			collect(t, seen, func(x *Term) {
				if strings.HasPrefix(x.Op, "fsum.") && x.closed() && !done[x] {
					done[x] = true
					apps = append(apps, x)
				}
			})
		}
		if len(apps) == 0 {
			break
		}
		var next []*Term
		for _, a := range apps {
			row, off, n := a.Args[0], a.Args[1], a.Args[2]
			n1 := Sub(n, IntLit(1))
			var val *Term = At(row, off, n1)
			if val.Sort == SXReal {
				val = XVal(val)
			}
			def := Eq(a, Ite(Le(n, IntLit(0)), RealLitStr("0"), Add(FSum(row, off, n1), val)))
			out = append(out, def)
			next = append(next, def)
		}
		frontier = next
	}
	return out
}

// unfoldDefs returns, for every ground application of a recursive pure
// function occurring in ts, the instantiated defining equation; repeated
// `depth` times on the newly introduced applications.
func (p *Program) unfoldDefs(ts []*Term, depth int) []*Term {
	bySym := map[string]*pureInfo{}
	for _, info := range p.pureDecl {
		if info.body != nil {
			bySym[info.symbol] = info
		}
	}
	if len(bySym) == 0 {
		return nil
	}
	var out []*Term
	done := map[*Term]bool{}
	seen := map[*Term]bool{}
	frontier := ts
	for d := 0; d < depth; d++ {
		var apps []*Term
		for _, t := range frontier {
			collect(t, seen, func(x *Term) {
				if _, ok := bySym[x.Op]; ok && x.closed() && !done[x] {
					done[x] = true
					apps = append(apps, x)
				}
			})
		}
		if len(apps) == 0 {
			break
		}
		var next []*Term
		for _, a := range apps {
			info := bySym[a.Op]
			m := map[*Term]*Term{}
			for i, pv := range info.paramVars {
				m[pv] = a.Args[i]
			}
			for i, hv := range info.heapVars {
				m[hv] = a.Args[len(info.paramVars)+i]
			}
			def := Eq(a, Subst(info.body, m))
			out = append(out, def)
			next = append(next, def)
		}
		frontier = next
	}
	return out
}

// ghostFieldHeap: the heap array of a contract-only ghost field (see gf/gfa)
func ghostFieldHeap(p *Program, name string, isArray bool) string {
	if isArray {
		h := "GFA:" + name
		p.registerHeap(h, ArraySort(SInt, ArraySort(SInt, SInt)))
		return h
	}
	h := "GF:" + name
	p.registerHeap(h, ArraySort(SInt, SInt))
	return h
}

// tryElab: elab that reports failure instead of raising it
func (e *Env) tryElab(x SExpr) (v SVal, ok bool) {
	defer func() {
		if r := recover(); r != nil {
			if _, isE := r.(elabErr); isE {
				ok = false
				return
			}
			panic(r)
		}
	}()
	return e.elab(x), true
}

// derefHeap: the heap array that holds the cells of pointers to the scalar type pv points to.
func derefHeap(p *Program, pv SVal) (string, types.Type) {
	if pv.Typ != nil {
		if pt, ok := pv.Typ.Underlying().(*types.Pointer); ok {
			if es := sortOf(pt.Elem()); es != nil {
				h := "P:" + typeKey(pt.Elem())
				p.registerHeap(h, ArraySort(SInt, es))
				return h, pt.Elem()
			}
		}
	}
	panic(elabErr{"deref(p): p must be a pointer to a scalar"})
}
