package main

// Pure real-arithmetic abstraction of an obligation: every subterm that is not
// real arithmetic or propositional structure is replaced by a fresh constant
// (the same constant for the same subterm). The abstraction only forgets facts,
// so an `unsat` answer for the abstract query is sound for the original one;
// any other answer is ignored. It lets the solvers' complete procedure for
// nonlinear real arithmetic (nlsat / cylindrical decomposition) decide the
// algebraic identities behind the closed-form estimators, which the
// combination with arrays, datatypes and uninterpreted functions cannot.

import (
	"fmt"
	"sort"
	"strings"
)

// liftAccessors pushes fv / testers through ite so that extended-real values disappear
func liftAccessors(t *Term, cache map[*Term]*Term) *Term {
	if len(t.Args) == 0 {
		return t
	}
	if r, ok := cache[t]; ok {
		return r
	}
	args := make([]*Term, len(t.Args))
	changed := false
	for i, a := range t.Args {
		args[i] = liftAccessors(a, cache)
		if args[i] != a {
			changed = true
		}
	}
	var r *Term
	switch t.Op {
	case "fv", "(_ is Fin)", "(_ is NaN)", "(_ is PInf)", "(_ is NInf)":
		a := args[0]
		if a.Op == "ite" {
			mkAcc := func(x *Term) *Term {
				return liftAccessors(rebuild(t, []*Term{x}, nil), cache)
			}
			r = Ite(a.Args[0], mkAcc(a.Args[1]), mkAcc(a.Args[2]))
		}
	case "=":
		// equality of extended reals with a constructor on one side
		if args[0].Sort == SXReal {
			for k := 0; k < 2; k++ {
				a, b := args[k], args[1-k]
				if rb, ok := isXFin(b); ok {
					r = liftAccessors(And(XIsFin(a), Eq(XVal(a), rb)), cache)
					break
				}
				if b.Op == "NaN" {
					r = liftAccessors(XIsNaN(a), cache)
					break
				}
				if b.Op == "PInf" {
					r = liftAccessors(XIsPInf(a), cache)
					break
				}
				if b.Op == "NInf" {
					r = liftAccessors(XIsNInf(a), cache)
					break
				}
			}
		}
	}
	if r == nil {
		if changed {
			r = rebuild(t, args, t.Pats)
		} else {
			r = t
		}
	}
	cache[t] = r
	return r
}

type nraAbs struct {
	vars  map[*Term]*Term
	order []*Term
	cache map[*Term]*Term
}

func (n *nraAbs) fresh(t *Term, s *Sort) *Term {
	if v, ok := n.vars[t]; ok {
		return v
	}
	v := Var(fmt.Sprintf("abs!%d", len(n.order)), s)
	n.vars[t] = v
	n.order = append(n.order, v)
	return v
}

func (n *nraAbs) abs(t *Term) *Term {
	if r, ok := n.cache[t]; ok {
		return r
	}
	r := n.abs1(t)
	n.cache[t] = r
	return r
}

func (n *nraAbs) abs1(t *Term) *Term {
	switch t.Op {
	case "real", "bool":
		return t
	case "int":
		return RealLitStr(t.Name)
	case "to_real":
		return n.abs(t.Args[0])
	case "and", "or", "not", "=>":
		args := make([]*Term, len(t.Args))
		for i, a := range t.Args {
			args[i] = n.abs(a)
			if args[i].Sort != SBool {
				return n.fresh(t, SBool)
			}
		}
		return rebuild(t, args, nil)
	case "ite":
		c, a, b := n.abs(t.Args[0]), n.abs(t.Args[1]), n.abs(t.Args[2])
		if c.Sort == SBool && a.Sort == b.Sort && (a.Sort == SReal || a.Sort == SBool) {
			return Ite(c, a, b)
		}
	case "=", "<", "<=", ">", ">=":
		if t.Args[0].Sort == SReal || t.Args[0].Sort == SInt || (t.Op == "=" && t.Args[0].Sort == SBool) {
			a, b := n.abs(t.Args[0]), n.abs(t.Args[1])
			if a.Sort == b.Sort && (a.Sort == SReal || a.Sort == SBool) {
				if t.Op == "=" {
					return Eq(a, b)
				}
				return Cmp(t.Op, a, b)
			}
		}
	case "+", "-", "*", "/":
		if t.Sort == SReal || t.Sort == SInt {
			args := make([]*Term, len(t.Args))
			for i, a := range t.Args {
				args[i] = n.abs(a)
				if args[i].Sort != SReal {
					args = nil
					break
				}
			}
			if args != nil && len(args) == 2 {
				switch t.Op {
				case "+":
					return Add(args[0], args[1])
				case "-":
					return Sub(args[0], args[1])
				case "*":
					return Mul(args[0], args[1])
				case "/":
					return RDiv(args[0], args[1])
				}
			}
		}
	}
	switch t.Sort {
	case SBool:
		return n.fresh(t, SBool)
	case SReal, SInt:
		return n.fresh(t, SReal)
	}
	return t // other sorts: the parent will be abstracted
}

// buildNRAQuery returns the abstract query, or "" when the obligation has no nonlinear real arithmetic
func (p *Program) buildNRAQuery(o *Obligation) string {
	if o.ExpectSat {
		return ""
	}
	var asserts []*Term
	asserts = append(asserts, flattenAnd(o.PC)...)
	// the goal's leading universal quantifiers become fresh constants (as in the full query), so that a universally
	// quantified algebraic identity is decided on its ground instance; quantified hypotheses are dropped below
	neg := negSkolem(o.Goal)
	asserts = append(asserts, neg...)
	asserts = presimplify(asserts)
	cache := map[*Term]*Term{}
	for i, a := range asserts {
		asserts[i] = liftAccessors(a, cache)
	}
	asserts = presimplify(asserts)
	asserts = append(asserts, mathAxiomsOpt(asserts, false)...)
	nonlinear := false
	seen := map[*Term]bool{}
	for _, a := range asserts {
		collect(a, seen, func(x *Term) {
			if (x.Op == "*" || x.Op == "/") && x.Sort == SReal && len(x.Args) == 2 && x.Args[0].Op != "real" && x.Args[1].Op != "real" {
				nonlinear = true
			}
		})
	}
	if !nonlinear {
		return ""
	}
	n := &nraAbs{vars: map[*Term]*Term{}, cache: map[*Term]*Term{}}
	qm := map[*Term]bool{}
	var out []*Term
	for _, a := range asserts {
		if hasQuant(a, qm) {
			continue
		}
		b := n.abs(a)
		if b.Sort == SBool && b != True {
			out = append(out, b)
		}
	}
	// functional consistency of the abstracted real functions (Ackermann): equal arguments give equal values
	byOp := map[string][]*Term{}
	var keys []*Term
	for k := range n.vars {
		keys = append(keys, k)
	}
	sort.Slice(keys, func(i, j int) bool { return keys[i].id < keys[j].id })
	for _, k := range keys {
		switch k.Op {
		case "m_ln", "m_exp", "m_pow", "m_sqrt", "m_powneg":
			byOp[k.Op] = append(byOp[k.Op], k)
		}
	}
	for _, apps := range byOp {
		for i, a := range apps {
			for _, b := range apps[i+1:] {
				var eqs []*Term
				ok := true
				for j := range a.Args {
					x, y := n.abs(a.Args[j]), n.abs(b.Args[j])
					if x.Sort != SReal || y.Sort != SReal {
						ok = false
						break
					}
					eqs = append(eqs, Eq(x, y))
				}
				if ok {
					out = append(out, Implies(And(eqs...), Eq(n.vars[a], n.vars[b])))
				}
			}
		}
	}
	var sb strings.Builder
	sb.WriteString("(set-logic QF_NRA)\n")
	vs := map[*Term]bool{}
	var vars []*Term
	seen2 := map[*Term]bool{}
	for _, a := range out {
		collect(a, seen2, func(x *Term) {
			if x.Op == "var" && !vs[x] {
				vs[x] = true
				vars = append(vars, x)
			}
		})
	}
	sort.Slice(vars, func(i, j int) bool { return vars[i].id < vars[j].id })
	for _, v := range vars {
		if v.Sort != SReal && v.Sort != SBool {
			return ""
		}
		fmt.Fprintf(&sb, "(declare-const %s %s)\n", symName(v.Name), v.Sort.Name)
	}
	for _, a := range out {
		sb.WriteString("(assert " + a.String() + ")\n")
	}
	sb.WriteString("(check-sat)\n")
	return sb.String()
}
