package main

// Counterexample replay: when a solver answers `sat` on an obligation, the
// counter-model of the verification condition is turned into real inputs
// (entry values of the parameters and of the heap they reach), an in-package
// Go test is generated that builds these inputs and calls the REAL function,
// and the test is run against /repo with `go test -overlay` (nothing is
// written into the repository). A failing input is reported only when the
// real code misbehaves in the way the obligation says (the run-time panic of
// a no-panic obligation, no return for a `decreases` obligation, the process
// ending for a `noexit` obligation); anything else keeps the
// `no-failing-input-found` suffix. The generated test and its output are
// stored next to the replay file in every case.

import (
	"bufio"
	"bytes"
	"fmt"
	"go/types"
	"io"
	"math/big"
	"os"
	"os/exec"
	"path/filepath"
	"regexp"
	"sort"
	"strings"
	"time"

	"golang.org/x/tools/go/ssa"
)

// ---- a tiny s-expression reader for solver answers ----

type sexp struct {
	atom string
	list []*sexp
	isL  bool
}

func (s *sexp) String() string {
	if !s.isL {
		return s.atom
	}
	var parts []string
	for _, e := range s.list {
		parts = append(parts, e.String())
	}
	return "(" + strings.Join(parts, " ") + ")"
}

func readSexp(r *bufio.Reader) (*sexp, error) {
	// skip white space
	for {
		c, err := r.ReadByte()
		if err != nil {
			return nil, err
		}
		if c == ' ' || c == '\n' || c == '\t' || c == '\r' {
			continue
		}
		if c == '(' {
			out := &sexp{isL: true}
			for {
				// peek for ')'
				for {
					d, err := r.ReadByte()
					if err != nil {
						return nil, err
					}
					if d == ' ' || d == '\n' || d == '\t' || d == '\r' {
						continue
					}
					if d == ')' {
						return out, nil
					}
					r.UnreadByte()
					break
				}
				e, err := readSexp(r)
				if err != nil {
					return nil, err
				}
				out.list = append(out.list, e)
			}
		}
		if c == '|' {
			var sb strings.Builder
			sb.WriteByte(c)
			for {
				d, err := r.ReadByte()
				if err != nil {
					return nil, err
				}
				sb.WriteByte(d)
				if d == '|' {
					break
				}
			}
			return &sexp{atom: sb.String()}, nil
		}
		if c == '"' {
			var sb strings.Builder
			sb.WriteByte(c)
			for {
				d, err := r.ReadByte()
				if err != nil {
					return nil, err
				}
				sb.WriteByte(d)
				if d == '"' {
					break
				}
			}
			return &sexp{atom: sb.String()}, nil
		}
		var sb strings.Builder
		sb.WriteByte(c)
		for {
			d, err := r.ReadByte()
			if err != nil {
				break
			}
			if d == ' ' || d == '\n' || d == '\t' || d == '\r' || d == '(' || d == ')' {
				r.UnreadByte()
				break
			}
			sb.WriteByte(d)
		}
		return &sexp{atom: sb.String()}, nil
	}
}

// ---- an interactive solver session holding one model ----

type modelSession struct {
	cmd      *exec.Cmd
	in       io.WriteCloser
	out      *bufio.Reader
	declared map[string]bool
	evals    int
	dead     bool
}

var declRe = regexp.MustCompile(`(?m)^\(declare-const (\S+|\|[^|]*\|) `)

func startModelSession(bin string, query string, timeout time.Duration) (*modelSession, string) {
	cmd := exec.Command(bin, "-in", "-T:"+fmt.Sprint(int(timeout.Seconds())+30))
	in, err := cmd.StdinPipe()
	if err != nil {
		return nil, "error"
	}
	outp, err := cmd.StdoutPipe()
	if err != nil {
		return nil, "error"
	}
	cmd.Stderr = nil
	if err := cmd.Start(); err != nil {
		return nil, "error"
	}
	s := &modelSession{cmd: cmd, in: in, out: bufio.NewReader(outp), declared: map[string]bool{}}
	for _, m := range declRe.FindAllStringSubmatch(query, -1) {
		s.declared[m[1]] = true
	}
	timer := time.AfterFunc(timeout, func() { cmd.Process.Kill() })
	io.WriteString(in, "(set-option :timeout "+fmt.Sprint(int(timeout.Milliseconds()))+")\n")
	io.WriteString(in, query)
	line, err := s.out.ReadString('\n')
	timer.Stop()
	if err != nil {
		if os.Getenv("GOVC_REPLAY_DEBUG") != "" {
			fmt.Fprintf(os.Stderr, "replay session %s: read error %v after %q\n", bin, err, line)
		}
		s.close()
		return nil, "error"
	}
	v := strings.TrimSpace(line)
	if v != "sat" {
		s.close()
		return nil, v
	}
	return s, "sat"
}

// smallModelVariants returns the query with bounds on its parameters added (slice lengths/offsets and
// integers; slices only), most constrained first; the unchanged query is last
func smallModelVariants(query string) []string {
	var slb, intb []string
	for _, m := range declSortRe.FindAllStringSubmatch(query, -1) {
		name, sort := m[1], m[2]
		if !strings.HasPrefix(strings.Trim(name, "|"), "in.") {
			continue
		}
		switch sort {
		case "Slice":
			slb = append(slb, fmt.Sprintf("(assert (and (<= (s-len %s) 4) (<= (s-off %s) 4) (<= (s-cap %s) 8)))", name, name, name))
		case "Int":
			intb = append(intb, fmt.Sprintf("(assert (and (<= (- 16) %s) (<= %s 16)))", name, name))
		}
	}
	ins := func(extra []string) string {
		i := strings.LastIndex(query, "(check-sat)")
		if i < 0 || len(extra) == 0 {
			return ""
		}
		return query[:i] + strings.Join(extra, "\n") + "\n" + query[i:]
	}
	var out []string
	if v := ins(append(append([]string{}, slb...), intb...)); v != "" {
		out = append(out, v)
	}
	if len(intb) > 0 {
		if v := ins(slb); v != "" {
			out = append(out, v)
		}
	}
	return append(out, query)
}

var declSortRe = regexp.MustCompile(`(?m)^\(declare-const (\S+|\|[^|]*\|) (\S+)\)`)

func (s *modelSession) close() {
	if s == nil {
		return
	}
	s.in.Close()
	s.cmd.Process.Kill()
	s.cmd.Wait()
}

// eval returns the model value of an SMT term text
func (s *modelSession) eval(text string) (*sexp, error) {
	s.evals++
	if s.evals > 20000 {
		return nil, fmt.Errorf("too many evaluations")
	}
	timer := time.AfterFunc(5*time.Second, func() { s.cmd.Process.Kill() })
	defer timer.Stop()
	if _, err := io.WriteString(s.in, "(get-value ("+text+"))\n"); err != nil {
		return nil, err
	}
	e, err := readSexp(s.out)
	if os.Getenv("GOVC_REPLAY_DEBUG") != "" {
		fmt.Fprintf(os.Stderr, "eval %s -> %v %v\n", text, e, err)
	}
	if err != nil {
		return nil, err
	}
	if !e.isL || len(e.list) != 1 || !e.list[0].isL || len(e.list[0].list) != 2 {
		return nil, fmt.Errorf("unexpected answer %s", e)
	}
	return e.list[0].list[1], nil
}

// ---- model values ----

func sexpInt(e *sexp) (*big.Int, bool) {
	if !e.isL {
		n, ok := new(big.Int).SetString(e.atom, 10)
		return n, ok
	}
	if len(e.list) == 2 && e.list[0].atom == "-" {
		n, ok := sexpInt(e.list[1])
		if !ok {
			return nil, false
		}
		return new(big.Int).Neg(n), true
	}
	return nil, false
}

func sexpRat(e *sexp) (*big.Rat, bool) {
	if !e.isL {
		r, ok := new(big.Rat).SetString(e.atom)
		return r, ok
	}
	if len(e.list) == 2 && e.list[0].atom == "-" {
		r, ok := sexpRat(e.list[1])
		if !ok {
			return nil, false
		}
		return new(big.Rat).Neg(r), true
	}
	if len(e.list) == 3 && e.list[0].atom == "/" {
		a, ok1 := sexpRat(e.list[1])
		b, ok2 := sexpRat(e.list[2])
		if !ok1 || !ok2 || b.Sign() == 0 {
			return nil, false
		}
		return new(big.Rat).Quo(a, b), true
	}
	return nil, false
}

// ---- rebuilding Go values from the model ----

type replayFail struct{ msg string }

// replayRefine asks for another model with extra ground constraints
type replayRefine struct{ constraints []string }

type backing struct {
	name  string
	elemT types.Type
	min   int64 // smallest offset used by a slice over this array (indices are shifted by it)
	hasM  bool
	size  int64            // one past the largest absolute index needed
	cells map[int64]string // index -> Go expression
	done  map[int64]bool
}

type strVal struct {
	term *Term
	expr string
	lit  string
}

type pendingMap struct {
	name string
	mt   *types.Map
	ref  *Term
}

type rebuilder struct {
	p       *Program
	s       *modelSession
	pkg     *types.Package
	imports map[string]string // path -> name
	decls   []string
	assigns []string
	n       int
	objs    map[string]string
	backs   map[string]*backing
	border  []string
	strs    []strVal
	ints    map[string]*Term // integer-valued terms seen (map key candidates)
	maps    []pendingMap
	mapsOf  map[string]string
	inexact []string
	summary []string
	pins    []string // ground facts of the model evaluated so far (kept when the model is refined)
}

func (b *rebuilder) fail(f string, a ...interface{}) { panic(replayFail{fmt.Sprintf(f, a...)}) }

func (b *rebuilder) fresh(prefix string) string {
	b.n++
	return fmt.Sprintf("%s%d", prefix, b.n)
}

func (b *rebuilder) typeStr(t types.Type) string {
	return types.TypeString(t, func(p *types.Package) string {
		if p == b.pkg {
			return ""
		}
		b.imports[p.Path()] = p.Name()
		return p.Name()
	})
}

// termText prints a term for get-value; ok is false when the term mentions a
// symbol that the query does not declare (its value is then irrelevant to the
// counter-model: the zero value is used)
func (b *rebuilder) termText(t *Term) (string, bool) {
	ok := true
	collect(t, map[*Term]bool{}, func(x *Term) {
		if x.Op == "var" && !b.s.declared[symName(x.Name)] {
			ok = false
		}
	})
	if !ok {
		return "", false
	}
	var sb strings.Builder
	printTerm(&sb, t, map[*Term]string{})
	return sb.String(), true
}

func (b *rebuilder) evalInt(t *Term) (*big.Int, bool) {
	txt, ok := b.termText(t)
	if !ok {
		return big.NewInt(0), false
	}
	e, err := b.s.eval(txt)
	if err != nil {
		b.fail("model evaluation failed: %v", err)
	}
	n, ok := sexpInt(e)
	if !ok {
		b.fail("not an integer value: %s", e)
	}
	if !strings.Contains(txt, "str_len") && !strings.Contains(txt, "str_at") {
		b.pins = append(b.pins, fmt.Sprintf("(assert (= %s %s))", txt, e))
	}
	return n, true
}

func (b *rebuilder) evalBool(t *Term) bool {
	txt, ok := b.termText(t)
	if !ok {
		return false
	}
	e, err := b.s.eval(txt)
	if err != nil {
		b.fail("model evaluation failed: %v", err)
	}
	return e.atom == "true"
}

func (b *rebuilder) small(n *big.Int, what string, limit int64) int64 {
	if !n.IsInt64() || n.Int64() > limit || n.Int64() < -limit {
		b.fail("%s = %s is too large to be built in a replay", what, n)
	}
	return n.Int64()
}

func ratExpr(r *big.Rat) string {
	if r.IsInt() && r.Num().IsInt64() {
		return fmt.Sprintf("float64(%d)", r.Num().Int64())
	}
	if r.Num().IsInt64() && r.Denom().IsInt64() {
		return fmt.Sprintf("(float64(%d) / float64(%d))", r.Num().Int64(), r.Denom().Int64())
	}
	f, _ := r.Float64()
	return fmt.Sprintf("float64(%g)", f)
}

func (b *rebuilder) floatExpr(t *Term) string {
	txt, ok := b.termText(t)
	if !ok {
		return "0.0"
	}
	e, err := b.s.eval(txt)
	if err != nil {
		b.fail("model evaluation failed: %v", err)
	}
	if t.Sort == SXReal {
		switch {
		case !e.isL && e.atom == "PInf":
			b.imports["math"] = "math"
			return "math.Inf(1)"
		case !e.isL && e.atom == "NInf":
			b.imports["math"] = "math"
			return "math.Inf(-1)"
		case !e.isL && e.atom == "NaN":
			b.imports["math"] = "math"
			return "math.NaN()"
		case e.isL && len(e.list) == 2 && e.list[0].atom == "Fin":
			r, ok := sexpRat(e.list[1])
			if !ok {
				b.fail("non-rational real value %s", e)
			}
			return ratExpr(r)
		}
		b.fail("unexpected extended-real value %s", e)
	}
	r, ok := sexpRat(e)
	if !ok {
		b.fail("non-rational real value %s", e)
	}
	return ratExpr(r)
}

func (b *rebuilder) stringExpr(t *Term) string {
	for _, s := range b.strs {
		if s.term == t {
			return s.expr
		}
	}
	if t.Op == "strlit" {
		e := fmt.Sprintf("%q", t.Name)
		b.strs = append(b.strs, strVal{t, e, t.Name})
		return e
	}
	ln, ok := b.evalInt(App("str_len", SInt, t))
	if !ok {
		b.strs = append(b.strs, strVal{t, `""`, ""})
		return `""`
	}
	n := b.small(ln, "string length", 256)
	if n < 0 {
		b.fail("negative string length in the model")
	}
	bs := make([]byte, n)
	for i := int64(0); i < n; i++ {
		c, _ := b.evalInt(App("str_at", SInt, t, IntLit(i)))
		cv := b.small(c, "string byte", 1<<31)
		if cv < 0 || cv > 255 {
			b.inexact = append(b.inexact, "string byte outside 0..255")
			cv = cv & 255
		}
		bs[i] = byte(cv)
	}
	lit := string(bs)
	for _, s := range b.strs {
		if s.lit == lit && s.term != t {
			// two different model strings with the same bytes: equal in Go only if the model says so
			if txt, ok := b.termText(Eq(s.term, t)); ok {
				if e, err := b.s.eval(txt); err == nil && e.atom != "true" {
					// uninterpreted strings are not extensional in the model: ask for a model in which
					// these two different strings also differ in length
					t1, _ := b.termText(s.term)
					t2, _ := b.termText(t)
					panic(replayRefine{[]string{fmt.Sprintf("(assert (not (= (str_len %s) (str_len %s))))", t1, t2)}})
				}
			}
		}
	}
	e := fmt.Sprintf("%q", lit)
	b.strs = append(b.strs, strVal{t, e, lit})
	return e
}

// value returns a Go expression for the model value of term v of Go type t
func (b *rebuilder) value(t types.Type, v *Term, depth int) string {
	if depth > 12 {
		b.fail("object graph too deep")
	}
	switch u := t.Underlying().(type) {
	case *types.Basic:
		switch {
		case u.Info()&types.IsBoolean != 0:
			if b.evalBool(v) {
				return "true"
			}
			return "false"
		case u.Info()&types.IsInteger != 0:
			n, _ := b.evalInt(v)
			if !n.IsInt64() && !(n.Sign() > 0 && n.IsUint64()) {
				b.fail("integer %s outside the machine range", n)
			}
			b.ints[n.String()] = v
			return fmt.Sprintf("%s(%s)", b.typeStr(t), n.String())
		case u.Info()&types.IsFloat != 0:
			return fmt.Sprintf("%s(%s)", b.typeStr(t), b.floatExpr(v))
		case u.Info()&types.IsString != 0:
			if _, named := t.(*types.Named); named {
				return fmt.Sprintf("%s(%s)", b.typeStr(t), b.stringExpr(v))
			}
			return b.stringExpr(v)
		}
	case *types.Pointer:
		st, ok := u.Elem().Underlying().(*types.Struct)
		if !ok {
			b.fail("pointer to %s not supported in a replay", u.Elem())
		}
		ref, _ := b.evalInt(v)
		if ref.Sign() == 0 {
			return "nil"
		}
		key := typeKey(u.Elem()) + "#" + ref.String()
		if nm, ok := b.objs[key]; ok {
			return nm
		}
		if foreignOpaque(u.Elem(), st, b.pkg) {
			// e.g. *bufio.Reader: its state (modelled by ghost fields) cannot be rebuilt from outside its package
			b.fail("an object of type %s (private state of another package) cannot be rebuilt", typeKey(u.Elem()))
		}
		nm := b.fresh("o")
		b.objs[key] = nm
		b.decls = append(b.decls, fmt.Sprintf("%s := new(%s)", nm, b.typeStr(u.Elem())))
		b.fillStruct(nm, u.Elem(), st, IntLitBig(ref), depth+1)
		return nm
	case *types.Slice:
		return b.sliceExpr(t, u, v, depth)
	case *types.Map:
		ref, _ := b.evalInt(v)
		if ref.Sign() == 0 {
			return "nil"
		}
		key := typeKey(t) + "#" + ref.String()
		if nm, ok := b.mapsOf[key]; ok {
			return nm
		}
		nm := b.fresh("m")
		b.mapsOf[key] = nm
		b.decls = append(b.decls, fmt.Sprintf("%s := make(%s)", nm, b.typeStr(t)))
		b.maps = append(b.maps, pendingMap{nm, u, IntLitBig(ref)})
		return nm
	case *types.Interface:
		ref, _ := b.evalInt(v)
		if ref.Sign() == 0 {
			return "nil"
		}
		b.fail("interface value of unknown dynamic type (%s)", t)
	}
	b.fail("values of type %s are not supported in a replay", t)
	return ""
}

func (b *rebuilder) fillStruct(lhs string, named types.Type, st *types.Struct, ref *Term, depth int) {
	for i := 0; i < st.NumFields(); i++ {
		f := st.Field(i)
		if inner, ok := f.Type().Underlying().(*types.Struct); ok {
			if foreignOpaque(f.Type(), inner, b.pkg) {
				// e.g. a bytes.Buffer or sync.Mutex held by value: left at its zero value, which may not be the modelled state
				b.inexact = append(b.inexact, "a field of type "+typeKey(f.Type())+" (private state of another package) was left at its zero value")
				continue
			}
			b.fillStruct(lhs+"."+f.Name(), f.Type(), inner, ref, depth)
			continue
		}
		if sortOf(f.Type()) == nil {
			continue // no SMT representation: left at its zero value
		}
		h := fieldHeapName(named, f)
		hv := Var(heapVarName(h)+"@0", ArraySort(SInt, sortOf(f.Type())))
		if !b.s.declared[symName(hv.Name)] {
			continue // the counter-model does not depend on this field
		}
		if f.Pkg() != nil && f.Pkg() != b.pkg && !f.Exported() {
			b.fail("private field %s.%s of another package cannot be set", typeKey(named), f.Name())
		}
		e := b.value(f.Type(), Select(hv, ref), depth)
		b.assigns = append(b.assigns, fmt.Sprintf("%s.%s = %s", lhs, f.Name(), e))
	}
}

func (b *rebuilder) sliceExpr(t types.Type, u *types.Slice, v *Term, depth int) string {
	lnB, ok := b.evalInt(SLen(v))
	if !ok {
		return "nil"
	}
	ln := b.small(lnB, "slice length", 2048)
	baseB, _ := b.evalInt(SBase(v))
	offB, _ := b.evalInt(SOff(v))
	capB, _ := b.evalInt(SCap(v))
	if baseB.Sign() == 0 {
		return "nil"
	}
	off := b.small(offB, "slice offset", 1<<40)
	cp := ln
	if capB.IsInt64() && capB.Int64() > ln {
		cp = capB.Int64()
		if cp > ln+8 {
			cp = ln + 8 // spare capacity is kept, only its amount is reduced
		}
	}
	if sortOf(u.Elem()) == nil {
		b.fail("slice of %s not supported in a replay", u.Elem())
	}
	key := typeKey(u.Elem()) + modeSuffix(u.Elem()) + "#" + baseB.String()
	bk, have := b.backs[key]
	if !have {
		bk = &backing{name: b.fresh("bk"), elemT: u.Elem(), cells: map[int64]string{}, done: map[int64]bool{}}
		b.backs[key] = bk
		b.border = append(b.border, key)
	}
	if off+cp > bk.size {
		bk.size = off + cp
	}
	if !bk.hasM || off < bk.min {
		bk.min, bk.hasM = off, true
	}
	h := elemHeapName(u.Elem())
	hv := Var(heapVarName(h)+"@0", ArraySort(SInt, ArraySort(SInt, sortOf(u.Elem()))))
	if b.s.declared[symName(hv.Name)] {
		row := Select(hv, IntLitBig(baseB))
		for i := off; i < off+ln; i++ {
			if bk.done[i] {
				continue
			}
			bk.done[i] = true
			bk.cells[i] = b.value(u.Elem(), Select(row, IntLit(i)), depth+1)
		}
	}
	// offsets are shifted by the array's smallest offset when the test is printed
	return fmt.Sprintf("%s[@%d@:@%d@:@%d@]", bk.name, off, off+ln, off+cp)
}

func (b *rebuilder) finishMaps() {
	for len(b.maps) > 0 {
		pm := b.maps[0]
		b.maps = b.maps[1:]
		d, vh, lh := mapHeapNames(pm.mt)
		ks, vs := sortOf(pm.mt.Key()), sortOf(pm.mt.Elem())
		if ks == nil || vs == nil {
			b.fail("map type %s not supported in a replay", pm.mt)
		}
		dv := Var(heapVarName(d)+"@0", ArraySort(SInt, ArraySort(ks, SBool)))
		vv := Var(heapVarName(vh)+"@0", ArraySort(SInt, ArraySort(ks, vs)))
		lv := Var(heapVarName(lh)+"@0", ArraySort(SInt, SInt))
		if !b.s.declared[symName(dv.Name)] {
			continue
		}
		type cand struct {
			t *Term
			e string
		}
		var cands []cand
		switch {
		case ks == SStr:
			for _, s := range b.strs {
				cands = append(cands, cand{s.term, s.expr})
			}
		case ks == SInt:
			var keys []string
			for k := range b.ints {
				keys = append(keys, k)
			}
			sort.Strings(keys)
			for _, k := range keys {
				n, _ := new(big.Int).SetString(k, 10)
				cands = append(cands, cand{IntLitBig(n), fmt.Sprintf("%s(%s)", b.typeStr(pm.mt.Key()), k)})
			}
			if bt, ok := pm.mt.Key().Underlying().(*types.Basic); ok && bt.Kind() == types.Uint8 {
				cands = nil
				for c := 0; c < 256; c++ {
					cands = append(cands, cand{IntLit(int64(c)), fmt.Sprintf("%s(%d)", b.typeStr(pm.mt.Key()), c)})
				}
			}
		default:
			b.fail("map key type %s not supported in a replay", pm.mt.Key())
		}
		found := int64(0)
		seen := map[string]bool{}
		for _, c := range cands {
			if seen[c.e] {
				continue
			}
			seen[c.e] = true
			if !b.evalBool(Select(Select(dv, pm.ref), c.t)) {
				continue
			}
			found++
			val := "nil"
			if b.s.declared[symName(vv.Name)] {
				val = b.value(pm.mt.Elem(), Select(Select(vv, pm.ref), c.t), 3)
			} else {
				val = fmt.Sprintf("*new(%s)", b.typeStr(pm.mt.Elem()))
			}
			b.assigns = append(b.assigns, fmt.Sprintf("%s[%s] = %s", pm.name, c.e, val))
		}
		if b.s.declared[symName(lv.Name)] {
			n, _ := b.evalInt(Select(lv, pm.ref))
			if !n.IsInt64() || n.Int64() != found {
				b.fail("the keys of a map of the model cannot be enumerated (%d found, the model has %s)", found, n)
			}
		}
	}
}

// foreignOpaque: a struct type of another package with unexported fields
func foreignOpaque(t types.Type, st *types.Struct, pkg *types.Package) bool {
	n, ok := t.(*types.Named)
	if !ok || n.Obj().Pkg() == nil || n.Obj().Pkg() == pkg {
		return false
	}
	for i := 0; i < st.NumFields(); i++ {
		if !st.Field(i).Exported() {
			return true
		}
	}
	return false
}

// ---- the replay of one obligation ----

type replayResult struct {
	Attempted bool
	Confirmed bool
	Why       string // why no failing input was confirmed
	Test      string // Go source of the generated test
	Output    string
	Observed  string
	PkgDir    string
}

var panicKinds = map[string][]string{
	"index":     {"index out of range"},
	"slice":     {"slice bounds out of range"},
	"nil":       {"nil pointer dereference", "nil map"},
	"div":       {"divide by zero"},
	"makeslice": {"makeslice", "len out of range", "cap out of range"},
	"conv":      {"out of range", "overflow"},
	"pre":       {"invalid argument", "panic"},
}

func (p *Program) replayObligation(o *Obligation, repoDir, verifDir string) (res replayResult) {
	defer func() {
		if r := recover(); r != nil {
			res.Confirmed = false
			res.Why = fmt.Sprintf("the replay generator failed (%v)", r)
		}
	}()
	fc := o.fc
	if fc == nil || fc.top == nil {
		res.Why = "not an obligation of a function body"
		return
	}
	fn := fc.top
	if fn.Parent() != nil {
		res.Why = "the function is a closure (cannot be called from a test)"
		return
	}
	if o.Verdict != "sat" {
		res.Why = "the solvers returned no counter-model (verdict " + o.Verdict + ")"
		return
	}
	savedFloat := floatSort
	if fc.contract != nil && fc.contract.Float == "xreal" {
		floatSort = SXReal
	} else {
		floatSort = SReal
	}
	defer func() { floatSort = savedFloat }()
	query := p.buildQuery(o, 2)
	// z3 5.1.0 first: the model evaluator of 4.8.12 does not return on some array models
	bins := []string{"z3-new", "/usr/bin/z3"}
	var sess *modelSession
	var b *rebuilder
	var argExprs []string
	var extra []string
	for round := 0; round < 6; round++ {
		verdict := ""
		q0 := query
		if len(extra) > 0 {
			i := strings.LastIndex(query, "(check-sat)")
			q0 = query[:i] + strings.Join(extra, "\n") + "\n" + query[i:]
		}
		variants := smallModelVariants(q0)
		if round > 0 {
			variants = []string{q0} // the shape is pinned already
		}
		sess = nil
		for _, q := range variants {
			for _, bin := range bins {
				var v string
				sess, v = startModelSession(bin, q, 12*time.Second)
				verdict += " " + filepath.Base(bin) + "=" + v
				if sess != nil {
					break
				}
			}
			if sess != nil {
				break
			}
		}
		if os.Getenv("GOVC_REPLAY_DEBUG") != "" {
			fmt.Fprintf(os.Stderr, "replay round %d:%s\n", round, verdict)
			os.WriteFile(fmt.Sprintf("/tmp/govc_replay_round%d.smt2", round), []byte(q0), 0o644)
		}
		if sess == nil {
			if round > 0 {
				res.Why = "no extensional model could be extracted (strings of the model are not determined by their bytes)"
			} else {
				res.Why = "no model could be extracted (asked again interactively:" + verdict + ")"
			}
			return
		}
		res.Attempted = true
		b = &rebuilder{p: p, s: sess, pkg: fn.Pkg.Pkg, imports: map[string]string{}, objs: map[string]string{}, backs: map[string]*backing{}, ints: map[string]*Term{}, mapsOf: map[string]string{}}
		argExprs = nil
		var refine *replayRefine
		func() {
			defer func() {
				if r := recover(); r != nil {
					if rf, ok := r.(replayFail); ok {
						res.Why = "the counter-model could not be turned into Go inputs: " + rf.msg
						return
					}
					if rr, ok := r.(replayRefine); ok {
						refine = &rr
						return
					}
					if _, ok := r.(unsupported); ok {
						res.Why = "the counter-model could not be turned into Go inputs (unsupported value)"
						return
					}
					panic(r)
				}
			}()
			for i, prm := range fn.Params {
				if i >= len(fc.entryArgs) {
					b.fail("parameter %s has no entry value", prm.Name())
				}
				a := fc.entryArgs[i]
				if a.T == nil {
					b.fail("parameter %s of type %s has no first-class model value", prm.Name(), prm.Type())
				}
				argExprs = append(argExprs, b.value(prm.Type(), a.T, 0))
			}
			b.finishMaps()
		}()
		sess.close()
		if refine == nil {
			break
		}
		if round == 5 {
			res.Why = "no extensional model could be extracted (strings of the model are not determined by their bytes)"
			return
		}
		seen := map[string]bool{}
		for _, e := range extra {
			seen[e] = true
		}
		for _, e := range append(b.pins, refine.constraints...) {
			if !seen[e] {
				seen[e] = true
				extra = append(extra, e)
			}
		}
	}
	if res.Why != "" {
		return
	}
	// the test
	var call string
	if fn.Signature.Recv() != nil {
		call = fmt.Sprintf("%s.%s(%s)", argExprs[0], fn.Name(), strings.Join(argExprs[1:], ", "))
	} else {
		call = fmt.Sprintf("%s(%s)", fn.Name(), strings.Join(argExprs, ", "))
	}
	if fn.Signature.Variadic() {
		call = strings.TrimSuffix(call, ")") + "...)"
	}
	var body strings.Builder
	for _, k := range b.border {
		bk := b.backs[k]
		if bk.size-bk.min > 1<<16 {
			res.Why = "the counter-model needs an array too large to be built in a replay"
			return
		}
		fmt.Fprintf(&body, "\t%s := make([]%s, %d)\n", bk.name, b.typeStr(bk.elemT), bk.size-bk.min)
	}
	for _, d := range b.decls {
		body.WriteString("\t" + d + "\n")
	}
	for _, k := range b.border {
		bk := b.backs[k]
		var idx []int64
		for i := range bk.cells {
			idx = append(idx, i)
		}
		sort.Slice(idx, func(i, j int) bool { return idx[i] < idx[j] })
		for _, i := range idx {
			fmt.Fprintf(&body, "\t%s[%d] = %s\n", bk.name, i-bk.min, bk.cells[i])
		}
	}
	for _, a := range b.assigns {
		body.WriteString("\t" + a + "\n")
	}
	var used []string
	for _, k := range b.border {
		used = append(used, b.backs[k].name)
	}
	for _, nm := range b.objs {
		used = append(used, nm)
	}
	for _, nm := range b.mapsOf {
		used = append(used, nm)
	}
	sort.Strings(used)
	for _, u := range used {
		fmt.Fprintf(&body, "\t_ = %s\n", u)
	}
	var imps []string
	for path, name := range b.imports {
		imps = append(imps, fmt.Sprintf("\t%s %q\n", name, path))
	}
	sort.Strings(imps)
	nres := fn.Signature.Results().Len()
	lhs := ""
	show := ""
	if nres > 0 {
		var names []string
		for i := 0; i < nres; i++ {
			names = append(names, fmt.Sprintf("r%d", i))
		}
		lhs = strings.Join(names, ", ") + " := "
		show = "\t\tdone <- fmt.Sprintf(\"RETURNED %s\", " + strings.Join(names, ", ") + ")\n"
		show = strings.Replace(show, "%s", strings.TrimSpace(strings.Repeat("%#v ", nres)), 1)
	} else {
		show = "\t\tdone <- \"RETURNED\"\n"
	}
	res.Test = fmt.Sprintf(`package %s

// generated by govc from the counter-model of obligation
//   %s
// inputs = entry values of the parameters in that model

import (
	"fmt"
	"testing"
	"time"
%s)

func TestGovcReplay(t *testing.T) {
%s	done := make(chan string, 1)
	go func() {
		defer func() {
			if r := recover(); r != nil {
				done <- fmt.Sprint("PANIC: ", r)
			}
		}()
		%s%s
%s	}()
	select {
	case m := <-done:
		fmt.Println("GOVC-REPLAY:", m)
	case <-time.After(10 * time.Second):
		fmt.Println("GOVC-REPLAY: TIMEOUT (no return within 10s)")
	}
}
`, fn.Pkg.Pkg.Name(), o.Name, strings.Join(imps, ""), body.String(), lhs, call, show)
	// shift the slice bounds by the smallest offset of their array
	{
		byName := map[string]*backing{}
		for _, bk := range b.backs {
			byName[bk.name] = bk
		}
		re := regexp.MustCompile(`(bk\d+)\[@(\d+)@:@(\d+)@:@(\d+)@\]`)
		res.Test = re.ReplaceAllStringFunc(res.Test, func(m string) string {
			g := re.FindStringSubmatch(m)
			bk := byName[g[1]]
			var x, y, z int64
			fmt.Sscan(g[2], &x)
			fmt.Sscan(g[3], &y)
			fmt.Sscan(g[4], &z)
			return fmt.Sprintf("%s[%d:%d:%d]", g[1], x-bk.min, y-bk.min, z-bk.min)
		})
	}
	// run it
	rel := strings.TrimPrefix(fn.Pkg.Pkg.Path(), p.module)
	rel = strings.TrimPrefix(rel, "/")
	if rel == "" {
		rel = "."
	}
	res.PkgDir = rel
	tmp, err := os.MkdirTemp("", "govc-replay-")
	if err != nil {
		res.Why = "cannot create a scratch directory"
		return
	}
	defer os.RemoveAll(tmp)
	tf := filepath.Join(tmp, "zz_govc_replay_test.go")
	os.WriteFile(tf, []byte(res.Test), 0o644)
	cmd := exec.Command(filepath.Join(verifDir, "tools", "runpkgtest.sh"), rel, tf, "TestGovcReplay")
	cmd.Env = append(os.Environ(), "REPO="+repoDir, "GOTESTFLAGS=-v", "TAILN=40")
	var outb bytes.Buffer
	cmd.Stdout = &outb
	cmd.Stderr = &outb
	cmd.Run()
	res.Output = outb.String()
	observed := ""
	for _, l := range strings.Split(res.Output, "\n") {
		if strings.HasPrefix(l, "GOVC-REPLAY:") {
			observed = strings.TrimSpace(strings.TrimPrefix(l, "GOVC-REPLAY:"))
		}
	}
	res.Observed = observed
	built := !strings.Contains(res.Output, "[build failed]") && !strings.Contains(res.Output, "[setup failed]")
	switch {
	case !built:
		res.Why = "the generated test does not compile"
	case observed == "" && (o.Kind == "noexit" || strings.Contains(res.Output, "exit status")):
		if o.Kind == "noexit" {
			res.Confirmed = true
			res.Observed = "the process ended inside the call (no return, no panic)"
		} else {
			res.Why = "the process ended inside the call, which is not what this obligation is about"
		}
	case strings.HasPrefix(observed, "PANIC"):
		// the contract promises a normal return for every input that satisfies the precondition (each
		// possible run-time panic has its own obligation); the model satisfies the precondition
		res.Confirmed = true
		res.Observed = "on an input that satisfies the precondition the real code panics: " + strings.TrimPrefix(observed, "PANIC: ")
	case strings.HasPrefix(observed, "TIMEOUT"):
		res.Confirmed = true
		res.Observed = "on an input that satisfies the precondition the real code does not return within 10s"
	default:
		res.Why = "the real code returned normally on the entry values of the counter-model (the model's intermediate state is not reached from them, or the violated clause is not observable as a panic)"
	}
	if res.Confirmed && len(b.inexact) > 0 {
		res.Confirmed = false
		res.Why = "the real code failed, but the model was rebuilt inexactly (" + strings.Join(b.inexact, "; ") + ")"
	}
	return
}

var _ = ssa.NaiveForm
