package main

// SMT term library: hash-consed terms, light simplification, SMT-LIB2 printing.

import (
	"fmt"
	"math/big"
	"regexp"
	"sort"
	"strings"
)

type Sort struct {
	Name string // SMT-LIB text of the sort
}

var (
	SInt   = &Sort{"Int"}
	SBool  = &Sort{"Bool"}
	SReal  = &Sort{"Real"}
	SSlice = &Sort{"Slice"}
	SStr   = &Sort{"Str"}
	SXReal = &Sort{"XReal"}
	// complex128: an opaque value; only its real part is observable (builtin real -> cplx_re)
	SCplx = &Sort{"Cplx"}
	sorts = map[string]*Sort{"Int": SInt, "Bool": SBool, "Real": SReal, "Slice": SSlice, "Str": SStr, "XReal": SXReal, "Cplx": SCplx}
)

func mkSort(name string) *Sort {
	if s, ok := sorts[name]; ok {
		return s
	}
	s := &Sort{name}
	sorts[name] = s
	return s
}

func ArraySort(idx, el *Sort) *Sort { return mkSort("(Array " + idx.Name + " " + el.Name + ")") }

// elemSort of an array sort
func (s *Sort) arrayParts() (idx, el *Sort, ok bool) {
	if !strings.HasPrefix(s.Name, "(Array ") {
		return nil, nil, false
	}
	body := s.Name[len("(Array ") : len(s.Name)-1]
	// split at top-level space
	depth := 0
	for i, c := range body {
		switch c {
		case '(':
			depth++
		case ')':
			depth--
		case ' ':
			if depth == 0 {
				return mkSort(body[:i]), mkSort(body[i+1:]), true
			}
		}
	}
	return nil, nil, false
}

type Term struct {
	Op    string // "var","int","real","bool", or SMT operator / function symbol
	Name  string // for var / literals
	Args  []*Term
	Sort  *Sort
	Bound []*Term // for quantifiers: bound variables (Op forall/exists)
	Pats  [][]*Term
	id    int
	free  map[*Term]bool // bound vars occurring free (nil if none)
}

type TermBank struct {
	tab    map[string]*Term
	n      int
	decls  []*Term // declared constants (Op=="var") in order
	funs   map[string]*FunDecl
	funOrd []string
	fresh  map[string]int
}

type FunDecl struct {
	Name string
	Args []*Sort
	Ret  *Sort
	Def  string   // optional full SMT definition text (define-fun ...) ; if empty, declare-fun
	Lits []string // string literals occurring in Def
}

var TB = &TermBank{tab: map[string]*Term{}, funs: map[string]*FunDecl{}, fresh: map[string]int{}}

func (tb *TermBank) intern(t *Term) *Term {
	var sb strings.Builder
	sb.WriteString(t.Op)
	sb.WriteByte('|')
	sb.WriteString(t.Name)
	sb.WriteByte('|')
	sb.WriteString(t.Sort.Name)
	for _, a := range t.Args {
		fmt.Fprintf(&sb, ",%d", a.id)
	}
	if len(t.Bound) > 0 {
		sb.WriteString(";B")
		for _, b := range t.Bound {
			fmt.Fprintf(&sb, ",%d", b.id)
		}
		for _, p := range t.Pats {
			sb.WriteString(";P")
			for _, q := range p {
				fmt.Fprintf(&sb, ",%d", q.id)
			}
		}
	}
	k := sb.String()
	if e, ok := tb.tab[k]; ok {
		return e
	}
	tb.n++
	t.id = tb.n
	// free bound vars
	var fr map[*Term]bool
	if t.Op == "bvar" {
		fr = map[*Term]bool{t: true}
	}
	for _, a := range t.Args {
		for v := range a.free {
			if fr == nil {
				fr = map[*Term]bool{}
			}
			fr[v] = true
		}
	}
	for _, p := range t.Pats {
		for _, q := range p {
			for v := range q.free {
				if fr == nil {
					fr = map[*Term]bool{}
				}
				fr[v] = true
			}
		}
	}
	if len(t.Bound) > 0 && fr != nil {
		for _, b := range t.Bound {
			delete(fr, b)
		}
		if len(fr) == 0 {
			fr = nil
		}
	}
	t.free = fr
	tb.tab[k] = t
	return t
}

func (t *Term) closed() bool { return t.free == nil }

// ---- constructors ----

func Var(name string, s *Sort) *Term {
	t := TB.intern(&Term{Op: "var", Name: name, Sort: s})
	return t
}

// Fresh declares a fresh constant with the given name prefix
func Fresh(prefix string, s *Sort) *Term {
	prefix = sanitize(prefix)
	TB.fresh[prefix]++
	n := TB.fresh[prefix]
	return Var(fmt.Sprintf("%s!%d", prefix, n), s)
}

func BVar(name string, s *Sort) *Term {
	TB.fresh["$b"+name]++
	return TB.intern(&Term{Op: "bvar", Name: fmt.Sprintf("%s?%d", sanitize(name), TB.fresh["$b"+name]), Sort: s})
}

func sanitize(s string) string {
	var b strings.Builder
	for _, c := range s {
		if c >= 'a' && c <= 'z' || c >= 'A' && c <= 'Z' || c >= '0' && c <= '9' || c == '_' || c == '.' || c == '$' {
			b.WriteRune(c)
		} else {
			b.WriteByte('_')
		}
	}
	return b.String()
}

func IntLit(n int64) *Term { return TB.intern(&Term{Op: "int", Name: fmt.Sprint(n), Sort: SInt}) }
func IntLitBig(n *big.Int) *Term {
	return TB.intern(&Term{Op: "int", Name: n.String(), Sort: SInt})
}
func RealLitRat(r *big.Rat) *Term {
	return TB.intern(&Term{Op: "real", Name: r.RatString(), Sort: SReal})
}
func RealLit(f float64) *Term {
	r := new(big.Rat)
	r.SetFloat64(f)
	return RealLitRat(r)
}
func RealLitStr(s string) *Term {
	r, ok := new(big.Rat).SetString(s)
	if !ok {
		panic("bad real literal " + s)
	}
	return RealLitRat(r)
}

var (
	True  = TB.intern(&Term{Op: "bool", Name: "true", Sort: SBool})
	False = TB.intern(&Term{Op: "bool", Name: "false", Sort: SBool})
)

func BoolLit(b bool) *Term {
	if b {
		return True
	}
	return False
}

func (t *Term) isInt() (int64, bool) {
	if t.Op == "int" {
		var n int64
		if _, err := fmt.Sscan(t.Name, &n); err == nil && fmt.Sprint(n) == t.Name {
			return n, true
		}
	}
	return 0, false
}

func mk(op string, s *Sort, args ...*Term) *Term {
	return TB.intern(&Term{Op: op, Args: args, Sort: s})
}

func Not(a *Term) *Term {
	if a == True {
		return False
	}
	if a == False {
		return True
	}
	if a.Op == "not" {
		return a.Args[0]
	}
	return mk("not", SBool, a)
}

func And(as ...*Term) *Term {
	var out []*Term
	seen := map[*Term]bool{}
	for _, a := range as {
		if a == nil || a == True {
			continue
		}
		if a == False {
			return False
		}
		if a.Op == "and" {
			for _, b := range a.Args {
				if !seen[b] {
					seen[b] = true
					out = append(out, b)
				}
			}
			continue
		}
		if !seen[a] {
			seen[a] = true
			out = append(out, a)
		}
	}
	for _, a := range out {
		if seen[Not(a)] && Not(a) != a {
			if a.Op == "not" || hasTerm(out, Not(a)) {
				return False
			}
		}
	}
	if len(out) == 0 {
		return True
	}
	if len(out) == 1 {
		return out[0]
	}
	return mk("and", SBool, out...)
}

func hasTerm(ts []*Term, t *Term) bool {
	for _, x := range ts {
		if x == t {
			return true
		}
	}
	return false
}

func Or(as ...*Term) *Term {
	var out []*Term
	seen := map[*Term]bool{}
	for _, a := range as {
		if a == nil || a == False {
			continue
		}
		if a == True {
			return True
		}
		if a.Op == "or" {
			for _, b := range a.Args {
				if !seen[b] {
					seen[b] = true
					out = append(out, b)
				}
			}
			continue
		}
		if !seen[a] {
			seen[a] = true
			out = append(out, a)
		}
	}
	for _, a := range out {
		if hasTerm(out, Not(a)) {
			return True
		}
	}
	if len(out) == 0 {
		return False
	}
	if len(out) == 1 {
		return out[0]
	}
	return mk("or", SBool, out...)
}

func Implies(a, b *Term) *Term {
	if a == True {
		return b
	}
	if a == False || b == True {
		return True
	}
	if b == False {
		return Not(a)
	}
	return mk("=>", SBool, a, b)
}

func Ite(c, a, b *Term) *Term {
	if c == True {
		return a
	}
	if c == False {
		return b
	}
	if a == b {
		return a
	}
	if a.Sort != b.Sort {
		panic(fmt.Sprintf("ite sort mismatch %s vs %s: %s / %s", a.Sort.Name, b.Sort.Name, a, b))
	}
	if a.Sort == SBool {
		if a == True && b == False {
			return c
		}
		if a == False && b == True {
			return Not(c)
		}
		if a == True {
			return Or(c, b)
		}
		if b == False {
			return And(c, a)
		}
		if a == False {
			return And(Not(c), b)
		}
		if b == True {
			return Or(Not(c), a)
		}
	}
	return mk("ite", a.Sort, c, a, b)
}

func Eq(a, b *Term) *Term {
	if a == b {
		return True
	}
	if a.Sort != b.Sort {
		// Int/Real coercion
		if a.Sort == SInt && b.Sort == SReal {
			a = ToReal(a)
		} else if a.Sort == SReal && b.Sort == SInt {
			b = ToReal(b)
		} else {
			panic(fmt.Sprintf("eq sort mismatch %s vs %s: %s = %s", a.Sort.Name, b.Sort.Name, a, b))
		}
	}
	if (a.Op == "int" && b.Op == "int") || (a.Op == "real" && b.Op == "real") || (a.Op == "bool" && b.Op == "bool") {
		return BoolLit(a.Name == b.Name)
	}
	if a.Op == "strlit" && b.Op == "strlit" {
		return BoolLit(a.Name == b.Name)
	}
	if a.Sort == SBool {
		if a == True {
			return b
		}
		if b == True {
			return a
		}
		if a == False {
			return Not(b)
		}
		if b == False {
			return Not(a)
		}
	}
	if a.id > b.id {
		a, b = b, a
	}
	return mk("=", SBool, a, b)
}

func Neq(a, b *Term) *Term { return Not(Eq(a, b)) }

func numSort(a, b *Term) (*Term, *Term, *Sort) {
	if a.Sort == SReal || b.Sort == SReal {
		return ToReal(a), ToReal(b), SReal
	}
	return a, b, SInt
}

func ToReal(a *Term) *Term {
	if a.Sort == SReal {
		return a
	}
	if a.Sort == SXReal {
		panic("ToReal on an extended real: " + a.String())
	}
	if a.Op == "int" {
		return RealLitStr(a.Name)
	}
	return mk("to_real", SReal, a)
}

func cmpLit(op string, a, b *Term) (*Term, bool) {
	if (a.Op == "int" || a.Op == "real") && (b.Op == "int" || b.Op == "real") {
		x, _ := new(big.Rat).SetString(a.Name)
		y, _ := new(big.Rat).SetString(b.Name)
		c := x.Cmp(y)
		switch op {
		case "<":
			return BoolLit(c < 0), true
		case "<=":
			return BoolLit(c <= 0), true
		case ">":
			return BoolLit(c > 0), true
		case ">=":
			return BoolLit(c >= 0), true
		}
	}
	return nil, false
}

func Cmp(op string, a, b *Term) *Term {
	a, b, _ = numSort(a, b)
	if r, ok := cmpLit(op, a, b); ok {
		return r
	}
	if a == b {
		return BoolLit(op == "<=" || op == ">=")
	}
	return mk(op, SBool, a, b)
}
func Lt(a, b *Term) *Term { return Cmp("<", a, b) }
func Le(a, b *Term) *Term { return Cmp("<=", a, b) }
func Gt(a, b *Term) *Term { return Cmp(">", a, b) }
func Ge(a, b *Term) *Term { return Cmp(">=", a, b) }

func arithLit(op string, a, b *Term, s *Sort) (*Term, bool) {
	if (a.Op == "int" || a.Op == "real") && (b.Op == "int" || b.Op == "real") {
		x, _ := new(big.Rat).SetString(a.Name)
		y, _ := new(big.Rat).SetString(b.Name)
		z := new(big.Rat)
		switch op {
		case "+":
			z.Add(x, y)
		case "-":
			z.Sub(x, y)
		case "*":
			z.Mul(x, y)
		default:
			return nil, false
		}
		if s == SInt {
			return IntLitBig(z.Num()), true
		}
		return RealLitRat(z), true
	}
	return nil, false
}

func Add(a, b *Term) *Term {
	a, b, s := numSort(a, b)
	if r, ok := arithLit("+", a, b, s); ok {
		return r
	}
	if a.Name == "0" && (a.Op == "int" || a.Op == "real") {
		return b
	}
	if b.Name == "0" && (b.Op == "int" || b.Op == "real") {
		return a
	}
	// (x + c1) + c2
	if b.Op == "int" && a.Op == "+" && len(a.Args) == 2 && a.Args[1].Op == "int" {
		return Add(a.Args[0], Add(a.Args[1], b))
	}
	if b.Op == "int" && a.Op == "-" && len(a.Args) == 2 && a.Args[1].Op == "int" {
		return Add(a.Args[0], Sub(b, a.Args[1]))
	}
	if b.Op == "int" && strings.HasPrefix(b.Name, "-") {
		return Sub(a, IntLitBig(new(big.Int).Neg(bigOf(b))))
	}
	return mk("+", s, a, b)
}

func bigOf(t *Term) *big.Int {
	n, _ := new(big.Int).SetString(t.Name, 10)
	return n
}

func Sub(a, b *Term) *Term {
	a, b, s := numSort(a, b)
	if r, ok := arithLit("-", a, b, s); ok {
		return r
	}
	if b.Name == "0" && (b.Op == "int" || b.Op == "real") {
		return a
	}
	if a == b {
		if s == SInt {
			return IntLit(0)
		}
		return RealLitStr("0")
	}
	if b.Op == "int" && a.Op == "+" && len(a.Args) == 2 && a.Args[1].Op == "int" {
		return Add(a.Args[0], Sub(a.Args[1], b))
	}
	if b.Op == "int" && a.Op == "-" && len(a.Args) == 2 && a.Args[1].Op == "int" {
		return Sub(a.Args[0], Add(a.Args[1], b))
	}
	if b.Op == "int" && strings.HasPrefix(b.Name, "-") {
		return Add(a, IntLitBig(new(big.Int).Neg(bigOf(b))))
	}
	return mk("-", s, a, b)
}

func Neg(a *Term) *Term {
	if a.Sort == SReal {
		return Sub(RealLitStr("0"), a)
	}
	return Sub(IntLit(0), a)
}

func Mul(a, b *Term) *Term {
	a, b, s := numSort(a, b)
	if r, ok := arithLit("*", a, b, s); ok {
		return r
	}
	if a.Name == "1" && (a.Op == "int" || a.Op == "real") {
		return b
	}
	if b.Name == "1" && (b.Op == "int" || b.Op == "real") {
		return a
	}
	return mk("*", s, a, b)
}

// RDiv: real division
func RDiv(a, b *Term) *Term {
	a, b = ToReal(a), ToReal(b)
	if a.Op == "real" && b.Op == "real" && b.Name != "0" {
		x, _ := new(big.Rat).SetString(a.Name)
		y, _ := new(big.Rat).SetString(b.Name)
		return RealLitRat(new(big.Rat).Quo(x, y))
	}
	return mk("/", SReal, a, b)
}

// GoDiv / GoMod: truncated integer division as in Go
func GoDiv(a, b *Term) *Term {
	if x, ok := a.isInt(); ok {
		if y, ok := b.isInt(); ok && y != 0 {
			return IntLit(x / y)
		}
	}
	return App("godiv", SInt, a, b)
}
func GoMod(a, b *Term) *Term {
	if x, ok := a.isInt(); ok {
		if y, ok := b.isInt(); ok && y != 0 {
			return IntLit(x % y)
		}
	}
	return App("gomod", SInt, a, b)
}

// EDiv / EMod: SMT-LIB euclidean div/mod (used for non-negative operands)
func EDiv(a, b *Term) *Term { return mk("div", SInt, a, b) }
func EMod(a, b *Term) *Term {
	if x, ok := a.isInt(); ok {
		if y, ok := b.isInt(); ok && y > 0 && x >= 0 {
			return IntLit(x % y)
		}
	}
	return mk("mod", SInt, a, b)
}

func App(fn string, ret *Sort, args ...*Term) *Term {
	return mk(fn, ret, args...)
}

func Select(arr, idx *Term) *Term {
	_, el, ok := arr.Sort.arrayParts()
	if !ok {
		panic("select on non-array " + arr.Sort.Name + ": " + arr.String())
	}
	// select over store with syntactically decidable index
	for arr.Op == "store" {
		if arr.Args[1] == idx {
			return arr.Args[2]
		}
		if distinctLits(arr.Args[1], idx) {
			arr = arr.Args[0]
			continue
		}
		break
	}
	return mk("select", el, arr, idx)
}

// At reads element idx of a slice view (row array, offset). It is an
// uninterpreted function with the defining axiom at(A,o,i) = A[o+i], so that
// quantifier patterns over element reads contain no arithmetic.
func At(row, off, idx *Term) *Term {
	_, el, ok := row.Sort.arrayParts()
	if !ok {
		panic("At on non-array " + row.Sort.Name)
	}
	return mk("at."+el.Name, el, row, off, idx)
}

// FSum is the built-in slice sum: the sum of the real values of the n cells
// row[off..off+n) (0 when n <= 0). It is an uninterpreted function with (1) its
// defining recursion instantiated by the generator at ground applications
// (fsumUnfold) and (2) the store-update law, both theorems about finite sums.
func FSum(row, off, n *Term) *Term {
	_, el, ok := row.Sort.arrayParts()
	if !ok {
		panic("FSum on non-array " + row.Sort.Name)
	}
	return mk("fsum."+el.Name, SReal, row, off, n)
}

func distinctLits(a, b *Term) bool {
	if a.Op == "int" && b.Op == "int" {
		return a.Name != b.Name
	}
	if a.Op == "strlit" && b.Op == "strlit" {
		return a.Name != b.Name
	}
	// x+c1 vs x+c2
	ba, ca := splitConst(a)
	bb, cb := splitConst(b)
	if ba == bb && ca != cb {
		return true
	}
	return false
}

func splitConst(t *Term) (*Term, int64) {
	if t.Op == "+" && len(t.Args) == 2 {
		if c, ok := t.Args[1].isInt(); ok {
			return t.Args[0], c
		}
	}
	if t.Op == "-" && len(t.Args) == 2 {
		if c, ok := t.Args[1].isInt(); ok {
			return t.Args[0], -c
		}
	}
	return t, 0
}

func Store(arr, idx, v *Term) *Term {
	_, el, ok := arr.Sort.arrayParts()
	if !ok {
		panic("store on non-array " + arr.Sort.Name)
	}
	if el != v.Sort {
		if el == SReal && v.Sort == SInt {
			v = ToReal(v)
		} else {
			panic(fmt.Sprintf("store sort mismatch: array %s value %s (%s)", arr.Sort.Name, v.Sort.Name, v))
		}
	}
	if arr.Op == "store" && arr.Args[1] == idx {
		arr = arr.Args[0]
	}
	return mk("store", arr.Sort, arr, idx, v)
}

func Forall(bound []*Term, body *Term, pats ...[]*Term) *Term {
	if body == True || len(bound) == 0 {
		return body
	}
	// drop unused bound vars
	var used []*Term
	for _, b := range bound {
		if body.free[b] {
			used = append(used, b)
		}
	}
	if len(used) == 0 {
		return body
	}
	return TB.intern(&Term{Op: "forall", Args: []*Term{body}, Sort: SBool, Bound: used, Pats: pats})
}

func Exists(bound []*Term, body *Term) *Term {
	if body == False || len(bound) == 0 {
		return body
	}
	var used []*Term
	for _, b := range bound {
		if body.free[b] {
			used = append(used, b)
		}
	}
	if len(used) == 0 {
		return body
	}
	return TB.intern(&Term{Op: "exists", Args: []*Term{body}, Sort: SBool, Bound: used})
}

// ---- slices ----

func SliceMk(base, off, ln, cp *Term) *Term { return mk("mk-slice", SSlice, base, off, ln, cp) }
func sliceProj(f string, s *Term) *Term {
	if s.Op == "mk-slice" {
		switch f {
		case "s-base":
			return s.Args[0]
		case "s-off":
			return s.Args[1]
		case "s-len":
			return s.Args[2]
		case "s-cap":
			return s.Args[3]
		}
	}
	if s.Op == "ite" {
		return Ite(s.Args[0], sliceProj(f, s.Args[1]), sliceProj(f, s.Args[2]))
	}
	return mk(f, SInt, s)
}
func SBase(s *Term) *Term { return sliceProj("s-base", s) }
func SOff(s *Term) *Term  { return sliceProj("s-off", s) }
func SLen(s *Term) *Term  { return sliceProj("s-len", s) }
func SCap(s *Term) *Term  { return sliceProj("s-cap", s) }

var NilSlice = SliceMk(IntLit(0), IntLit(0), IntLit(0), IntLit(0))

// ---- strings ----
func StrLit(s string) *Term { return TB.intern(&Term{Op: "strlit", Name: s, Sort: SStr}) }

// ---- substitution ----

func Subst(t *Term, m map[*Term]*Term) *Term {
	if len(m) == 0 {
		return t
	}
	cache := map[*Term]*Term{}
	return subst(t, m, cache)
}

func subst(t *Term, m map[*Term]*Term, cache map[*Term]*Term) *Term {
	if r, ok := m[t]; ok {
		return r
	}
	if len(t.Args) == 0 {
		return t
	}
	if r, ok := cache[t]; ok {
		return r
	}
	changed := false
	args := make([]*Term, len(t.Args))
	for i, a := range t.Args {
		args[i] = subst(a, m, cache)
		if args[i] != a {
			changed = true
		}
	}
	var pats [][]*Term
	for _, p := range t.Pats {
		var q []*Term
		for _, x := range p {
			y := subst(x, m, cache)
			if y != x {
				changed = true
			}
			q = append(q, y)
		}
		pats = append(pats, q)
	}
	var r *Term
	if !changed {
		r = t
	} else {
		r = rebuild(t, args, pats)
	}
	cache[t] = r
	return r
}

func rebuild(t *Term, args []*Term, pats [][]*Term) *Term {
	switch t.Op {
	case "and":
		return And(args...)
	case "or":
		return Or(args...)
	case "not":
		return Not(args[0])
	case "=>":
		return Implies(args[0], args[1])
	case "ite":
		return Ite(args[0], args[1], args[2])
	case "=":
		return Eq(args[0], args[1])
	case "<", "<=", ">", ">=":
		return Cmp(t.Op, args[0], args[1])
	case "+":
		if len(args) == 2 {
			return Add(args[0], args[1])
		}
	case "-":
		if len(args) == 2 {
			return Sub(args[0], args[1])
		}
	case "*":
		if len(args) == 2 {
			return Mul(args[0], args[1])
		}
	case "select":
		return Select(args[0], args[1])
	case "store":
		return Store(args[0], args[1], args[2])
	case "s-base", "s-off", "s-len", "s-cap":
		return sliceProj(t.Op, args[0])
	case "forall":
		return Forall(t.Bound, args[0], pats...)
	case "exists":
		return Exists(t.Bound, args[0])
	case "x_add":
		return XAdd(args[0], args[1])
	case "x_sub":
		return XSub(args[0], args[1])
	case "x_mul":
		return XMul(args[0], args[1])
	case "x_div":
		return XDiv(args[0], args[1])
	case "x_neg":
		return XNeg(args[0])
	case "x_lt":
		return XCmp("<", args[0], args[1])
	case "x_le":
		return XCmp("<=", args[0], args[1])
	case "x_eq":
		return XEq(args[0], args[1])
	case "(_ is Fin)":
		return XIsFin(args[0])
	case "(_ is NaN)":
		return XIsNaN(args[0])
	case "(_ is PInf)":
		return XIsPInf(args[0])
	case "(_ is NInf)":
		return XIsNInf(args[0])
	case "fv":
		return XVal(args[0])
	case "/":
		if len(args) == 2 {
			return RDiv(args[0], args[1])
		}
	}
	return TB.intern(&Term{Op: t.Op, Name: t.Name, Args: args, Sort: t.Sort, Bound: t.Bound, Pats: pats})
}

// ---- printing ----

func (t *Term) String() string {
	var sb strings.Builder
	printTerm(&sb, t, nil)
	return sb.String()
}

func smtInt(name string) string {
	if strings.HasPrefix(name, "-") {
		return "(- " + name[1:] + ")"
	}
	return name
}

func smtReal(name string) string {
	neg := strings.HasPrefix(name, "-")
	if neg {
		name = name[1:]
	}
	var s string
	if i := strings.Index(name, "/"); i >= 0 {
		s = "(/ " + name[:i] + ".0 " + name[i+1:] + ".0)"
	} else {
		s = name + ".0"
	}
	if neg {
		return "(- " + s + ")"
	}
	return s
}

// printRename maps the names of free and bound variables (and of string-literal symbols) to per-query canonical
// names: the counters of fresh names are renumbered densely per query, so that the text of a query depends only on
// the obligation, not on how many fresh names other functions consumed before. Set by Script, kept until the next
// Script call (the replay module prints further terms against the last query).
var printRename map[string]string

func symName(n string) string {
	if r, ok := printRename[n]; ok {
		n = r
	}
	return "|" + n + "|"
}

func printTerm(sb *strings.Builder, t *Term, names map[*Term]string) {
	if names != nil {
		if n, ok := names[t]; ok {
			sb.WriteString(n)
			return
		}
	}
	switch t.Op {
	case "var", "bvar":
		sb.WriteString(symName(t.Name))
	case "int":
		sb.WriteString(smtInt(t.Name))
	case "real":
		sb.WriteString(smtReal(t.Name))
	case "bool":
		sb.WriteString(t.Name)
	case "strlit":
		sb.WriteString(strLitSym(t.Name))
	case "forall", "exists":
		sb.WriteString("(" + t.Op + " (")
		for _, b := range t.Bound {
			sb.WriteString("(" + symName(b.Name) + " " + b.Sort.Name + ")")
		}
		sb.WriteString(") ")
		if len(t.Pats) > 0 {
			sb.WriteString("(! ")
		}
		printTerm(sb, t.Args[0], names)
		if len(t.Pats) > 0 {
			for _, p := range t.Pats {
				sb.WriteString(" :pattern (")
				for i, q := range p {
					if i > 0 {
						sb.WriteByte(' ')
					}
					printTerm(sb, q, names)
				}
				sb.WriteString(")")
			}
			sb.WriteString(")")
		}
		sb.WriteString(")")
	default:
		if len(t.Args) == 0 {
			sb.WriteString(t.Op)
			return
		}
		sb.WriteString("(" + t.Op)
		for _, a := range t.Args {
			sb.WriteByte(' ')
			printTerm(sb, a, names)
		}
		sb.WriteString(")")
	}
}

var strLitIDs = map[string]int{}
var strLitOrd []string

func strLitSym(s string) string {
	id, ok := strLitIDs[s]
	if !ok {
		id = len(strLitOrd)
		strLitIDs[s] = id
		strLitOrd = append(strLitOrd, s)
	}
	nm := fmt.Sprintf("strlit!%d", id)
	if r, ok := printRename[nm]; ok {
		return r
	}
	return nm
}

// collect walks the term DAG
func collect(t *Term, seen map[*Term]bool, f func(*Term)) {
	if seen[t] {
		return
	}
	seen[t] = true
	for _, a := range t.Args {
		collect(a, seen, f)
	}
	for _, p := range t.Pats {
		for _, q := range p {
			collect(q, seen, f)
		}
	}
	f(t)
}

// Script builds an SMT-LIB script for a set of assertions. Shared closed
// subterms are named through define-fun to keep the script linear in the DAG.
func Script(asserts []*Term, prelude string, extraDecls func(used map[string]bool) string) string {
	seen := map[*Term]bool{}
	var order []*Term
	refcnt := map[*Term]int{}
	var count func(t *Term)
	count = func(t *Term) {
		refcnt[t]++
		if refcnt[t] > 1 {
			return
		}
		for _, a := range t.Args {
			count(a)
		}
		for _, p := range t.Pats {
			for _, q := range p {
				count(q)
			}
		}
	}
	for _, a := range asserts {
		count(a)
	}
	for _, a := range asserts {
		collect(a, seen, func(t *Term) { order = append(order, t) })
	}
	var vars []*Term
	usedFuns := map[string]bool{}
	usedStr := map[string]bool{}
	for _, t := range order {
		switch t.Op {
		case "var":
			vars = append(vars, t)
		case "strlit":
			usedStr[t.Name] = true
		default:
			if _, ok := TB.funs[t.Op]; ok {
				usedFuns[t.Op] = true
			}
		}
	}
	// canonical order: by name without the fresh-name counter, so that the text of a query does not depend on
	// which other functions were processed before this one (solver heuristics are sensitive to the order)
	sort.SliceStable(vars, func(i, j int) bool {
		a, b := canonName(vars[i].Name), canonName(vars[j].Name)
		if a != b {
			return a < b
		}
		return vars[i].id < vars[j].id
	})
	for f := range usedFuns {
		for _, l := range TB.funs[f].Lits {
			usedStr[l] = true
		}
	}
	var sb strings.Builder
	sb.WriteString(prelude)
	// string literals
	var lits []string
	for s := range usedStr {
		lits = append(lits, s)
	}
	sort.Strings(lits)
	// per-query canonical names
	printRename = nil
	{
		ren := map[string]string{}
		cnt := map[string]int{}
		for _, v := range vars {
			base := canonName(v.Name)
			if base == v.Name {
				continue // no counter in the name
			}
			cnt[base]++
			ren[v.Name] = fmt.Sprintf("%s!%d", base, cnt[base])
		}
		// bound variables, in order of first occurrence
		bc := map[string]int{}
		for _, t := range order {
			if t.Op == "forall" || t.Op == "exists" {
				for _, b := range t.Bound {
					if _, done := ren[b.Name]; done {
						continue
					}
					base := canonName(b.Name)
					if base == b.Name {
						continue
					}
					bc[base]++
					ren[b.Name] = fmt.Sprintf("%s?%d", base, bc[base])
				}
			}
		}
		// (string-literal symbols keep their global numbers: table definitions are cached as text)
		printRename = ren
	}
	for _, s := range lits {
		fmt.Fprintf(&sb, "(declare-const %s Str) ; %q\n", strLitSym(s), s)
	}
	if len(lits) > 1 {
		sb.WriteString("(assert (distinct")
		for _, s := range lits {
			sb.WriteString(" " + strLitSym(s))
		}
		sb.WriteString("))\n")
	}
	for _, s := range lits {
		fmt.Fprintf(&sb, "(assert (= (str_len %s) %d))\n", strLitSym(s), len(s))
		if len(s) <= 128 {
			for i := 0; i < len(s); i++ {
				fmt.Fprintf(&sb, "(assert (= (str_at %s %d) %d))\n", strLitSym(s), i, s[i])
			}
		}
	}
	for _, v := range vars {
		fmt.Fprintf(&sb, "(declare-const %s %s)\n", symName(v.Name), v.Sort.Name)
	}
	if extraDecls != nil {
		sb.WriteString(extraDecls(usedFuns))
	}
	// name shared closed compound subterms
	names := map[*Term]string{}
	n := 0
	for _, t := range order {
		if len(t.Args) == 0 || !t.closed() {
			continue
		}
		if refcnt[t] < 2 && termSize(t, 40) < 40 {
			continue
		}
		if t == NilSlice {
			continue // stays a literal value: cvc5 requires a value under (as const ...)
		}
		var b strings.Builder
		// print with existing names, but not itself
		printTermTop(&b, t, names)
		n++
		nm := fmt.Sprintf("$t%d", n)
		fmt.Fprintf(&sb, "(define-fun %s () %s %s)\n", nm, t.Sort.Name, b.String())
		names[t] = nm
	}
	for _, a := range asserts {
		sb.WriteString("(assert ")
		printTerm(&sb, a, names)
		sb.WriteString(")\n")
	}
	return sb.String()
}

var canonRe = regexp.MustCompile(`[!?][0-9]+`)

// canonName strips the counters of fresh names
func canonName(n string) string { return canonRe.ReplaceAllString(n, "") }

func termSize(t *Term, limit int) int {
	n := 1
	for _, a := range t.Args {
		if n >= limit {
			return n
		}
		n += termSize(a, limit-n)
	}
	return n
}

func printTermTop(sb *strings.Builder, t *Term, names map[*Term]string) {
	// like printTerm but does not look up t itself in names
	saved, had := names[t]
	if had {
		delete(names, t)
	}
	printTerm(sb, t, names)
	if had {
		names[t] = saved
	}
}
