package main

import (
	"go/types"

	"golang.org/x/tools/go/ssa"
)

type typesPointer = types.Pointer

func newPtr(t *ssa.Type) *types.Pointer { return types.NewPointer(t.Type()) }
