package main

import (
	"fmt"
	"os"
	"strings"

	"golang.org/x/tools/go/packages"
	"golang.org/x/tools/go/ssa"
	"golang.org/x/tools/go/ssa/ssautil"
)

func main() {
	dir := os.Args[1]
	pkgpat := os.Args[2]
	fn := os.Args[3]
	cfg := &packages.Config{Mode: packages.LoadAllSyntax, Dir: dir, BuildFlags: []string{"-tags=verif"}}
	pkgs, err := packages.Load(cfg, pkgpat)
	if err != nil {
		panic(err)
	}
	prog, spkgs := ssautil.AllPackages(pkgs, ssa.NaiveForm|ssa.GlobalDebug)
	prog.Build()
	for _, p := range spkgs {
		if p == nil {
			continue
		}
		for _, m := range p.Members {
			if f, ok := m.(*ssa.Function); ok && strings.Contains(f.Name(), fn) {
				f.WriteTo(os.Stdout)
				for _, af := range f.AnonFuncs {
					af.WriteTo(os.Stdout)
				}
			}
			if t, ok := m.(*ssa.Type); ok {
				for _, tt := range []interface{ String() string }{t.Type()} {
					_ = tt
				}
				ms := prog.MethodSets.MethodSet(t.Type())
				for i := 0; i < ms.Len(); i++ {
					f := prog.MethodValue(ms.At(i))
					if f != nil && strings.Contains(f.Name(), fn) {
						f.WriteTo(os.Stdout)
					}
				}
				ms = prog.MethodSets.MethodSet(ptr(t))
				for i := 0; i < ms.Len(); i++ {
					f := prog.MethodValue(ms.At(i))
					if f != nil && strings.Contains(f.Name(), fn) && f.Synthetic == "" {
						f.WriteTo(os.Stdout)
						for _, af := range f.AnonFuncs {
							af.WriteTo(os.Stdout)
						}
					}
				}
			}
		}
	}
	fmt.Println()
}

func ptr(t *ssa.Type) *typesPointer { return newPtr(t) }
