package main

import (
	"fmt"
	"go/types"

	"golang.org/x/tools/go/ssa"
)

// lemmaObligations: lemmas are closed statements over spec functions, tables
// and an arbitrary heap; parameters are universally quantified (fresh constants).
func (p *Program) lemmaObligations(prop string) (obls []*Obligation, errs []string) {
	// `cases` clauses: the enumerated integer parameters take every value of their
	// range in turn (the lemma is stated, and proved, for exactly those values)
	type lemmaInst struct {
		lm    *Lemma
		combo map[string]int64
	}
	var insts []lemmaInst
	for _, lm := range p.lemmas {
		if prop != "" && !hasStr(lm.Props, prop) {
			continue
		}
		combos := []map[string]int64{{}}
		for _, cs := range lm.Cases {
			var next []map[string]int64
			for _, c := range combos {
				for v := cs.Lo; v <= cs.Hi; v++ {
					n := map[string]int64{cs.Param: v}
					for k, x := range c {
						n[k] = x
					}
					next = append(next, n)
				}
			}
			combos = next
			if len(combos) > 256 {
				errs = append(errs, fmt.Sprintf("lemma %s: too many cases", lm.Name))
				combos = nil
				break
			}
		}
		for _, c := range combos {
			insts = append(insts, lemmaInst{lm, c})
		}
	}
	for _, in := range insts {
		lm, combo := in.lm, in.combo
		suffix := ""
		for _, cs := range lm.Cases {
			suffix += fmt.Sprintf("[%s=%d]", cs.Param, combo[cs.Param])
		}
		st := &State{pc: True, cells: map[*ssa.Alloc]Val{}, heap: map[string]*Term{}, ghost: map[string]*Term{}, alloc: Var("alloc@0", SInt)}
		st.assume(Le(IntLit(0), st.alloc))
		env := &Env{p: p, vars: map[string]SVal{}, cur: st, old: st}
		if pk, ok := p.pkgs[lm.Pkg]; ok {
			env.pkg = pk.Types
		}
		func() {
			defer func() {
				if r := recover(); r != nil {
					switch e := r.(type) {
					case elabErr:
						errs = append(errs, fmt.Sprintf("lemma %s: %s", lm.Name, e.msg))
					case unsupported:
						errs = append(errs, fmt.Sprintf("lemma %s: unsupported: %s", lm.Name, e.msg))
					default:
						panic(r)
					}
				}
			}()
			for _, d := range lm.Params {
				typ := env.parseType(d.Type)
				s := sortOf(typ)
				if s == nil {
					panic(elabErr{"parameter " + d.Name + " has unsupported type " + d.Type})
				}
				v := Fresh("lm."+lm.Name+"."+d.Name, s)
				if cv, ok := combo[d.Name]; ok {
					if s != SInt {
						panic(elabErr{"cases parameter " + d.Name + " is not an integer"})
					}
					v = IntLit(cv)
				}
				st.assume(typeInv(typ, v, st.alloc))
				env.vars[d.Name] = SVal{T: v, Typ: typ}
			}
			for _, rq := range lm.Requires {
				t, err := env.ElabBool(rq.Expr)
				if err != nil {
					panic(elabErr{fmt.Sprintf("requires: %v", err)})
				}
				st.assume(t)
			}
			obls = append(obls, &Obligation{Name: "lemma." + lm.Name + suffix + "#vacuity:requires#1", Kind: "vacuity", Func: "lemma " + lm.Name, PC: st.pc, Goal: True, ExpectSat: true, Pos: fmt.Sprintf("line %d", lm.Line), Desc: "lemma hypotheses are satisfiable", Props: lm.Props})
			for i, en := range lm.Ensures {
				t, err := env.ElabBool(en.Expr)
				if err != nil {
					panic(elabErr{fmt.Sprintf("ensures: %v", err)})
				}
				o := &Obligation{Name: fmt.Sprintf("lemma.%s%s#ensures:%s#%d", lm.Name, suffix, en.Text, i+1), Kind: "lemma", Func: "lemma " + lm.Name, PC: st.pc, Goal: t, Pos: fmt.Sprintf("line %d", lm.Line), Desc: "lemma conclusion", Props: lm.Props}
				if t == True {
					o.Verdict, o.Solver = "unsat", "simplifier"
				}
				obls = append(obls, o)
			}
		}()
	}
	// table immutability scans
	for _, tb := range p.tables {
		if prop != "" && !hasStr(tb.Props, prop) {
			continue
		}
		bad := p.tableWriters(tb)
		bad = append(bad, p.tableAliasWriters(tb)...)
		o := &Obligation{Name: "table." + tb.Name + "#immutable#1", Kind: "table-immutable", Func: "table " + tb.Name, PC: True, Goal: True, Pos: tb.Pos, Desc: "no instruction in the repository writes the table after initialisation; no map of a map table's type is updated unless made locally; rows of a nested table never leave the function that reads them (syntactic scan)", Props: tb.Props, Verdict: "unsat", Solver: "scan"}
		if len(bad) > 0 {
			o.Verdict = "sat"
			o.Detail = fmt.Sprint(bad)
		}
		obls = append(obls, o)
	}
	return
}

var _ = types.Typ
