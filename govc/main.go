package main

import (
	"encoding/json"
	"flag"
	"fmt"
	"hash/fnv"
	"os"
	"os/exec"
	"path/filepath"
	"regexp"
	"runtime"
	"sort"
	"strings"
	"time"
)

var repoPatterns = []string{"./align", "./cmd", "./distance/dna", "./distance/protein", "./models", "./models/dna", "./models/protein",
	"./stats", "./gutils", "./io", "./io/fasta", "./io/phylip", "./io/nexus", "./io/clustal", "./io/stockholm", "./io/partition", "./io/paml", "./io/utils", "./io/countprofile"}

type KnownFinding struct {
	Property   string `json:"property"`
	Obligation string `json:"obligation"`
	What       string `json:"what"`
	Witness    string `json:"witness,omitempty"`
	Status     string `json:"status"` // known | fixed
	Commit     string `json:"commit,omitempty"`
	ReplayPkg  string `json:"replay_pkg,omitempty"`
	ReplayTest string `json:"replay_test,omitempty"`
	ReplayName string `json:"replay_name,omitempty"`
}

func main() {
	repo := flag.String("repo", "/repo", "repository root")
	prop := flag.String("prop", "", "property id (e.g. C06); empty = all contracts")
	tier := flag.String("tier", "quick", "quick | thorough")
	out := flag.String("out", "", "evidence file to write")
	verifDir := flag.String("verif", "/verif", "verification directory (specs, known findings, replays)")
	only := flag.String("func", "", "only verify functions whose key contains this text")
	verbose := flag.Bool("v", false, "verbose")
	keep := flag.Bool("keep", false, "keep SMT files")
	dumpQ := flag.String("dump", "", "print the SMT query of the obligation whose name contains this text")
	oblF := flag.String("obl", "", "authoring aid: only discharge obligations whose name contains one of these |-separated texts (the run is then partial)")
	noLemmas := flag.Bool("nolemmas", false, "skip the lemma/table obligations (authoring convenience together with -func)")
	flag.Parse()
	start := time.Now()
	seed := 0
	if s := os.Getenv("VERIF_SEED"); s != "" {
		fmt.Sscan(s, &seed)
	}
	p, err := LoadProgram(*repo, repoPatterns)
	if err != nil {
		fatalViolation(*prop, *verifDir, *out, *tier, seed, start, "load", err.Error())
	}
	for _, f := range []string{"externs.spec"} {
		sp := filepath.Join(*verifDir, "specs", f)
		if _, e := os.Stat(sp); e == nil {
			if err := p.AddSpecFile(sp, "extern"); err != nil {
				fatalViolation(*prop, *verifDir, *out, *tier, seed, start, "specs", err.Error())
			}
			// ghost fields that carry the model state of library objects (assumed contracts): `ghostset` may not assign them
			if txt, e := os.ReadFile(sp); e == nil {
				p.externGhost = map[string]bool{}
				for _, m := range regexp.MustCompile(`\b(?:gfa?\(\s*(\w+)|gfield\([^,()]*,\s*(\w+)|ghostzero\s+\S+\s+(\w+))`).FindAllStringSubmatch(string(txt), -1) {
					for _, g := range m[1:] {
						if g != "" {
							p.externGhost[g] = true
						}
					}
				}
			}
		}
	}
	p.Bind()
	loadSecs := time.Since(start).Seconds()
	if *verbose {
		fmt.Printf("loaded in %.1fs\n", loadSecs)
	}
	activeProp = *prop
	repoDirForReplay = *repo
	rep := &Report{Prop: *prop, Tier: *tier, Seed: seed, Verif: *verifDir, p: p}
	for _, be := range p.bindErrs {
		rep.addFailure("bind", be, "contract does not bind to the code")
	}
	workdir, _ := os.MkdirTemp("", "govc-")
	cleanup = func() {
		if !*keep {
			os.RemoveAll(workdir)
		} else {
			fmt.Println("SMT files kept in", workdir)
		}
	}
	defer cleanup()
	cfg := &SolveConfig{workdir: workdir, t0: 4, t1: 5, t2: 20}
	if *tier == "thorough" {
		cfg.t0, cfg.t1, cfg.t2 = 10, 20, 120
		cfg.allAgree = true
	}
	// a loaded machine slows every solver down: scale the time limits with the load average
	if b, err := os.ReadFile("/proc/loadavg"); err == nil {
		var l1 float64
		fmt.Sscanf(string(b), "%f", &l1)
		if f := l1 / float64(runtime.NumCPU()); f > 0.5 {
			if f > 3 {
				f = 3
			}
			sc := 1 + f
			cfg.t0, cfg.t1, cfg.t2 = int(float64(cfg.t0)*sc), int(float64(cfg.t1)*sc), int(float64(cfg.t2)*sc)
			loadScale = sc
		}
	}
	// functions under contract for this property
	var keys []string
	for k, c := range p.contracts {
		if c.Trusted {
			continue
		}
		if *prop != "" && !hasStr(c.Props, *prop) {
			continue
		}
		if *only != "" && !strings.Contains(k, *only) {
			continue
		}
		keys = append(keys, k)
	}
	sort.Strings(keys)
	var all []*Obligation
	for _, k := range keys {
		c := p.contracts[k]
		fn := p.funcs[k]
		t0 := time.Now()
		fc, err := VerifyFunction(p, fn, c)
		fr := FuncReport{Key: k, Contract: fmt.Sprintf("%s:%d", relTo(*repo, c.File), c.Line)}
		if err != nil {
			fr.Error = err.Error()
			rep.addFailure(k+"#generate", err.Error(), "verification conditions could not be generated")
		}
		if fc != nil {
			for _, o := range fc.obls {
				// property filter on clause tags
				if *prop != "" && len(o.Props) > 0 && !hasStr(o.Props, *prop) {
					continue
				}
				o.Name = pkgShort(k) + "." + o.Name
				o.fc = fc
				all = append(all, o)
				fr.Obligations++
			}
			for n := range fc.notes {
				rep.assumption(n)
			}
			for n := range fc.inlined {
				fr.Inlined = append(fr.Inlined, n)
			}
			sort.Strings(fr.Inlined)
			if fc.wrap {
				fr.Arith = "int is 64-bit wrap-around (modelled exactly)"
			} else {
				fr.Arith = "int is mathematical (overflow not modelled)"
			}
		}
		fr.GenSecs = time.Since(t0).Seconds()
		rep.Funcs = append(rep.Funcs, fr)
	}
	// lemmas and tables
	lobls, lerrs := p.lemmaObligations(*prop)
	if *noLemmas {
		lobls, lerrs = nil, nil
		partialRun = true
	}
	for _, e := range lerrs {
		rep.addFailure("lemma", e, "lemma could not be generated")
	}
	all = append(all, lobls...)
	if *dumpQ != "" {
		for _, o := range all {
			if strings.Contains(o.Name, *dumpQ) {
				fmt.Println(p.buildQuery(o, 2))
				return
			}
		}
		fmt.Println("no such obligation; have:")
		for _, o := range all {
			fmt.Println("  ", o.Name)
		}
		return
	}
	genSecs := time.Since(start).Seconds() - loadSecs
	if *oblF != "" {
		var sel []*Obligation
		for _, o := range all {
			for _, pat := range strings.Split(*oblF, "|") {
				if strings.Contains(o.Name, pat) {
					sel = append(sel, o)
					break
				}
			}
		}
		fmt.Printf("PARTIAL RUN: -obl selects %d of %d obligations\n", len(sel), len(all))
		all = sel
		partialRun = true
	}
	cfg.noRetry = map[string]bool{}
	for _, k := range loadKnown(*verifDir) {
		if k.Status == "known" {
			cfg.noRetry[k.Obligation] = true
		}
	}
	dischargeAll(p, all, cfg)
	if *verbose {
		fmt.Printf("vcgen %.1fs, solving %.1fs (of which %.1fs sequential query construction)\n", genSecs, time.Since(start).Seconds()-loadSecs-genSecs, buildSecs)
	}
	rep.Obls = all
	rep.finish(*out, start, *verbose)
}

var loadScale = 1.0

// repoDirForReplay: the tree the witness tests of known findings are run against (the -repo argument)
var repoDirForReplay string

var cleanup = func() {}

func exit(code int) {
	cleanup()
	os.Exit(code)
}

func hasStr(xs []string, s string) bool {
	for _, x := range xs {
		if x == s {
			return true
		}
	}
	return false
}

func relTo(base, path string) string {
	r, err := filepath.Rel(base, path)
	if err != nil {
		return path
	}
	return r
}

func pkgShort(key string) string {
	// "github.com/evolbioinfo/goalign/align::(*seq).Reverse" -> "align"
	i := strings.Index(key, "::")
	if i < 0 {
		return key
	}
	path := key[:i]
	return strings.TrimPrefix(strings.TrimPrefix(path, modulePath), "/")
}

// ---- report ----

type FuncReport struct {
	Key         string   `json:"function"`
	Contract    string   `json:"contract"`
	Obligations int      `json:"obligations"`
	Inlined     []string `json:"inlined_callees,omitempty"`
	Arith       string   `json:"arithmetic,omitempty"`
	Error       string   `json:"error,omitempty"`
	GenSecs     float64  `json:"vcgen_s"`
}

type failure struct {
	name, detail, what string
}

type Report struct {
	Prop     string
	Tier     string
	Seed     int
	Verif    string
	p        *Program
	Funcs    []FuncReport
	Obls     []*Obligation
	failures []failure
	assumps  map[string]bool
}

func (r *Report) addFailure(name, detail, what string) {
	r.failures = append(r.failures, failure{name, detail, what})
}
func (r *Report) assumption(s string) {
	if r.assumps == nil {
		r.assumps = map[string]bool{}
	}
	r.assumps[s] = true
}

func loadKnown(verif string) []KnownFinding {
	b, err := os.ReadFile(filepath.Join(verif, "known_findings.json"))
	if err != nil {
		return nil
	}
	var k []KnownFinding
	if err := json.Unmarshal(b, &k); err != nil {
		fmt.Fprintf(os.Stderr, "known_findings.json: %v\n", err)
		return nil
	}
	return k
}

func (r *Report) finish(out string, start time.Time, verbose bool) {
	known := loadKnown(r.Verif)
	isKnown := func(name string) *KnownFinding {
		for i := range known {
			k := &known[i]
			if k.Status == "known" && k.Obligation == name && (k.Property == r.Prop || r.Prop == "") {
				return k
			}
		}
		return nil
	}
	nObl, nDis := 0, 0
	var samples []map[string]interface{}
	var failed []*Obligation
	var knownHit []*KnownFinding
	bySolver := map[string]int{}
	kinds := map[string]int{}
	solverSecs := 0.0
	sort.SliceStable(r.Obls, func(i, j int) bool { return r.Obls[i].Name < r.Obls[j].Name })
	for _, o := range r.Obls {
		nObl++
		kinds[o.Kind]++
		solverSecs += o.Secs
		if o.ok() {
			nDis++
			bySolver[o.Solver]++
		} else {
			if k := isKnown(o.Name); k != nil && witnessStillFails(r.Verif, k) {
				knownHit = append(knownHit, k)
				nObl-- // a known finding is reported separately, not counted as an obligation of the claim
				continue
			}
			failed = append(failed, o)
		}
		if verbose {
			fmt.Printf("  %-8s %-10s %6.2fs wall=%.1fs %s\n", o.Verdict, o.Solver, o.Secs, o.Wall, o.Name)
		}
	}
	// samples: a spread of obligations
	step := 1
	if len(r.Obls) > 12 {
		step = len(r.Obls) / 12
	}
	for i := 0; i < len(r.Obls); i += step {
		o := r.Obls[i]
		samples = append(samples, map[string]interface{}{"obligation": o.Name, "kind": o.Kind, "at": o.Pos, "verdict": o.Verdict, "solver": o.Solver, "solver_s": round3(o.Secs)})
	}
	violations := 0
	replays := 0
	replayStart := time.Now()
	repDir := filepath.Join(r.Verif, "replays", r.Prop)
	for _, f := range r.failures {
		violations++
		path := writeReplay(repDir, f.name, fmt.Sprintf("obligation: %s\nwhat: %s\ndetail: %s\n", f.name, f.what, f.detail))
		fmt.Printf("VIOLATION property=%s replay=%s obligation=%s (%s) no-failing-input-found\n", r.Prop, path, f.name, f.what)
	}
	for _, o := range failed {
		violations++
		body := fmt.Sprintf("obligation: %s\nkind: %s\nat: %s\nmeaning: %s\nverdict: %s\nsolvers: %s\n", o.Name, o.Kind, o.Pos, o.Desc, o.Verdict, o.Detail)
		if o.Goal != nil && len(o.Goal.String()) < 4000 {
			body += "goal: " + o.Goal.String() + "\n"
		}
		// the SMT query of the failed obligation is kept with the replay (the scratch directory is removed at exit)
		smt := ""
		if o.Goal != nil && o.fc != nil {
			smt = r.p.buildQuery(o, 2)
		}
		suffix := " no-failing-input-found"
		if replays < 12 && time.Since(replayStart) < 90*time.Second && os.Getenv("GOVC_NOREPLAY") == "" {
			rr := r.p.replayObligation(o, r.p.repo, r.Verif)
			if rr.Attempted {
				replays++
			}
			switch {
			case rr.Confirmed:
				suffix = ""
				body += "counterexample: REPLAYED ON THE REAL CODE -- " + rr.Observed + "\n"
			case rr.Why != "":
				body += "counterexample: none confirmed -- " + rr.Why + "\n"
			}
			if rr.Test != "" {
				body += "replay-package: " + rr.PkgDir + "\nreplay-test: TestGovcReplay (source below; run again with ./check --replay <this file>)\n"
				body += "---- go test output ----\n" + rr.Output + "\n---- generated test ----\n" + rr.Test + "\n---- end of generated test ----\n"
			}
		}
		path := writeReplay(repDir, o.Name, body)
		if smt != "" {
			os.WriteFile(strings.TrimSuffix(path, ".txt")+".smt2", []byte("; "+o.Name+"\n"+smt), 0o644)
		}
		fmt.Printf("VIOLATION property=%s replay=%s obligation=%s verdict=%s%s\n", r.Prop, path, o.Name, o.Verdict, suffix)
	}
	for _, k := range knownHit {
		fmt.Printf("KNOWN-FINDING: property=%s %s [%s]\n", k.Property, k.What, k.Obligation)
	}
	var assumps []string
	for a := range r.assumps {
		assumps = append(assumps, a)
	}
	assumps = append(assumps,
		"float64 is modelled as exact reals on finite values: rounding is ignored; every float division and log/sqrt/pow argument carries a model-validity obligation",
		"closed-world assumption on the repository's interfaces (Alignment, SeqBag, Sequence: single implementation each)",
		"goroutine scheduling is not modelled; defer is supported in the static entry-block form only",
		"memory exhaustion and stack depth are not modelled")
	sort.Strings(assumps)
	var fnames []string
	for _, f := range r.Funcs {
		fnames = append(fnames, f.Key)
	}
	ev := map[string]interface{}{
		"property_id": r.Prop,
		"tier":        r.Tier,
		"seed":        r.Seed,
		"level":       "proof",
		"coverage": map[string]interface{}{
			"obligations":              nObl,
			"discharged":               nDis,
			"checker_cmd":              fmt.Sprintf("govc -prop %s -tier %s (VCs from go/ssa of /repo's working tree; solvers z3 4.8.12, z3 5.1.0, cvc5 1.0.3 raced per obligation)", r.Prop, r.Tier),
			"trusted_base":             []string{"go/packages, go/types, go/ssa (golang.org/x/tools v0.29.0)", "govc VC generator (this repository, /verif/govc)", "z3 4.8.12 / z3 5.1.0 / cvc5 1.0.3", "assumed contracts listed under assumptions (specs/externs.spec)"},
			"functions_under_contract": r.Funcs,
			"obligation_kinds":         kinds,
			"discharged_by":            bySolver,
			"solver_seconds":           round3(solverSecs),
			"solver_runs":              tally.runs,
			"cross_checked":            tally.cross,
			"cross_check_agreed":       tally.crossAgree,
			"samples":                  samples,
			"known_findings":           knownHit,
			"undischarged":             namesOf(failed),
		},
		"assumptions": assumps,
		"wall_s":      round3(time.Since(start).Seconds()),
		"violations":  violations,
	}
	if b, err := os.ReadFile(filepath.Join(r.Verif, "specs", "coverage_notes.json")); err == nil {
		var notes map[string]map[string]interface{}
		if json.Unmarshal(b, &notes) == nil {
			if n, ok := notes[r.Prop]; ok {
				for k, v := range n {
					ev["coverage"].(map[string]interface{})[k] = v
				}
			}
		}
	}
	if out != "" {
		os.MkdirAll(filepath.Dir(out), 0o755)
		b, _ := json.MarshalIndent(ev, "", " ")
		os.WriteFile(out, b, 0o644)
	}
	fmt.Printf("property=%s tier=%s functions=%d obligations=%d discharged=%d known=%d violations=%d wall=%.1fs\n",
		r.Prop, r.Tier, len(r.Funcs), nObl, nDis, len(knownHit), violations, time.Since(start).Seconds())
	if nObl == 0 && violations == 0 {
		fmt.Printf("VIOLATION property=%s replay=%s obligation=none (no obligations generated: vacuous check)\n", r.Prop, writeReplay(repDir, "no-obligations", "the check generated zero obligations"))
		exit(1)
	}
	if violations > 0 {
		exit(1)
	}
	if partialRun {
		fmt.Println("PARTIAL RUN (-obl): not a proof; exit status 3")
		exit(3)
	}
}

// partialRun: set by the authoring flag -obl (only a subset of the obligations was discharged)
var partialRun bool

// witnessStillFails replays the recorded witness of a known finding against the
// real code (in-package test injected with go test -overlay): the finding only
// masks the obligation while its own failing input still fails.
func witnessStillFails(verif string, k *KnownFinding) bool {
	if k.ReplayTest == "" {
		return true
	}
	cmd := exec.Command(filepath.Join(verif, "tools", "runpkgtest.sh"), k.ReplayPkg, filepath.Join(verif, k.ReplayTest), k.ReplayName)
	if repoDirForReplay != "" {
		cmd.Env = append(os.Environ(), "REPO="+repoDirForReplay)
	}
	out, _ := cmd.CombinedOutput()
	return strings.Contains(string(out), "--- FAIL") || strings.Contains(string(out), "panic:")
}

func namesOf(os []*Obligation) []string {
	out := []string{}
	for _, o := range os {
		out = append(out, o.Name+" ["+o.Verdict+"]")
	}
	return out
}

func round3(f float64) float64 { return float64(int(f*1000+0.5)) / 1000 }

func writeReplay(dir, name, body string) string {
	os.MkdirAll(dir, 0o755)
	fn := sanitize(name)
	if len(fn) > 120 {
		h := fnv.New32a()
		h.Write([]byte(name))
		fn = fmt.Sprintf("%s_%08x", fn[:120], h.Sum32())
	}
	path := filepath.Join(dir, fn+".txt")
	os.WriteFile(path, []byte(body), 0o644)
	return path
}

func fatalViolation(prop, verif, out, tier string, seed int, start time.Time, stage, msg string) {
	path := writeReplay(filepath.Join(verif, "replays", prop), "engine-"+stage, msg)
	fmt.Printf("VIOLATION property=%s replay=%s obligation=engine#%s (%s) no-failing-input-found\n", prop, path, stage, firstLine(msg))
	if out != "" {
		ev := map[string]interface{}{
			"property_id": prop, "tier": tier, "seed": seed, "level": "proof",
			"coverage":   map[string]interface{}{"obligations": 1, "discharged": 0, "checker_cmd": "govc", "trusted_base": []string{}, "explanation": "engine failure at stage " + stage + ": " + firstLine(msg)},
			"wall_s":     round3(time.Since(start).Seconds()),
			"violations": 1,
		}
		os.MkdirAll(filepath.Dir(out), 0o755)
		b, _ := json.MarshalIndent(ev, "", " ")
		os.WriteFile(out, b, 0o644)
	}
	exit(1)
}

func firstLine(s string) string {
	if i := strings.Index(s, "\n"); i >= 0 {
		return s[:i]
	}
	return s
}
