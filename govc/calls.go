package main

import (
	"fmt"
	"go/token"
	"go/types"
	"sort"
	"strings"

	"golang.org/x/tools/go/ssa"
)

// resolveCallee returns the statically known callee of a call, or nil.
func (fc *FuncCtx) resolveCallee(fr *Frame, call *ssa.CallCommon) *ssa.Function {
	if call.IsInvoke() {
		// interface method: closed world over the repo's implementations
		recvT := call.Value.Type()
		var impls []*types.Pointer
		if nt, ok := recvT.(*types.Named); ok {
			impls = fc.p.implsOf(nt)
		}
		var found *ssa.Function
		for _, im := range impls {
			sel := fc.p.prog.MethodSets.MethodSet(im).Lookup(call.Method.Pkg(), call.Method.Name())
			if sel == nil {
				return nil
			}
			f := fc.p.prog.MethodValue(sel)
			if f == nil {
				return nil
			}
			// promoted methods come as synthetic wrappers: unwrap
			f = unwrapSynthetic(f)
			if found != nil && found != f {
				return nil
			}
			found = f
		}
		return found
	}
	if f := call.StaticCallee(); f != nil {
		return f
	}
	return nil
}

func unwrapSynthetic(f *ssa.Function) *ssa.Function {
	for f != nil && f.Synthetic != "" && len(f.Blocks) > 0 {
		// wrapper: find the single static call inside
		var target *ssa.Function
		for _, b := range f.Blocks {
			for _, ins := range b.Instrs {
				if c, ok := ins.(*ssa.Call); ok {
					if sc := c.Call.StaticCallee(); sc != nil {
						target = sc
					}
				}
			}
		}
		if target == nil || target == f {
			return f
		}
		f = target
	}
	return f
}

func (p *Program) implsOf(it *types.Named) []*types.Pointer {
	iface, ok := it.Underlying().(*types.Interface)
	if !ok {
		return nil
	}
	var out []*types.Pointer
	for path, pk := range p.pkgs {
		if !strings.HasPrefix(path, p.module) {
			continue
		}
		sc := pk.Types.Scope()
		for _, n := range sc.Names() {
			if tn, ok := sc.Lookup(n).(*types.TypeName); ok {
				if nt, ok := tn.Type().(*types.Named); ok {
					if _, isI := nt.Underlying().(*types.Interface); isI {
						continue
					}
					pt := types.NewPointer(nt)
					if types.Implements(pt, iface) {
						out = append(out, pt)
					}
				}
			}
		}
	}
	return out
}

func fullName(f *ssa.Function) string {
	if f.Pkg == nil {
		// method of an instantiated/external type
		return f.String()
	}
	return f.Pkg.Pkg.Path() + "." + funcKey(f)
}

func (p *Program) externFor(f *ssa.Function) *Contract {
	if f == nil {
		return nil
	}
	if c, ok := p.externs[fullName(f)]; ok {
		return c
	}
	// methods: "(*bytes.Buffer).WriteByte"
	if c, ok := p.externs[f.String()]; ok {
		return c
	}
	return nil
}

func (fc *FuncCtx) call(fr *Frame, st *State, res ssa.Value, call *ssa.CallCommon, pos token.Pos) {
	setRes := func(v Val) {
		if res != nil {
			fr.regs[res] = v
		}
	}
	if bi, ok := call.Value.(*ssa.Builtin); ok {
		setRes(fc.builtin(fr, st, bi, call, pos))
		return
	}
	var args []Val
	callee := fc.resolveCallee(fr, call)
	if call.IsInvoke() {
		args = append(args, fc.value(fr, call.Value))
	}
	for _, a := range call.Args {
		args = append(args, fc.value(fr, a))
	}
	var fvs []Val
	if callee == nil {
		fv := fc.value(fr, call.Value)
		if fv.Fn != nil {
			callee = fv.Fn.Fn
			fvs = fv.Fn.Bindings
		}
	}
	if callee == nil {
		// interface method with several implementations / unknown function value:
		// look for an interface-level contract
		if call.IsInvoke() {
			key := "(" + typeKeyShort(call.Value.Type()) + ")." + call.Method.Name()
			pk := ""
			if nt, ok := call.Value.Type().(*types.Named); ok && nt.Obj().Pkg() != nil {
				pk = nt.Obj().Pkg().Path()
			}
			if c, ok := fc.p.ifaceContracts[pk+"::"+key]; ok {
				sig := call.Method.Type().(*types.Signature)
				fc.closurePreserves(fr, st, call, nil, args, c, false, pos)
				setRes(fc.callByContract(fr, st, nil, c, sig, args, pos, key, true))
				fc.havocClosureArgs(fr, st, call)
				fc.closurePreserves(fr, st, call, nil, args, c, true, pos)
				return
			}
			unsupp("dynamic call %s.%s at %s (no interface contract %s)", call.Value.Type(), call.Method.Name(), fc.p.pos(pos), key)
		}
		unsupp("call of unknown function value at %s", fc.p.pos(pos))
	}
	if call.IsInvoke() {
		// nil receiver check
		fc.addObl(fr, st, "nil", fc.srcAt(fr, pos), Neq(args[0].T, IntLit(0)), pos, "method call on nil interface")
		st.assume(Neq(args[0].T, IntLit(0)))
	}
	// assert_at clauses of the function under contract that name this call
	if fr.isTop && fc.contract != nil && len(fc.contract.Asserts) > 0 {
		cn := fullName(callee)
		fc.callCount[cn]++
		key := fmt.Sprintf("%s#%d", cn, fc.callCount[cn])
		for _, as := range fc.contract.Asserts {
			if as.Name != key {
				continue
			}
			env := fc.envFor(fr, st, nil, true)
			for i, a := range args {
				if a.T != nil {
					var pt types.Type
					if i < callee.Signature.Params().Len() {
						pt = callee.Signature.Params().At(i).Type()
					}
					env.vars[fmt.Sprintf("arg%d", i)] = SVal{T: a.T, Typ: pt}
				}
			}
			t, err := env.ElabBool(as.Expr)
			if err != nil {
				panic(elabErr{fmt.Sprintf("%s:%d: assert_at %s: %v", fc.contract.File, as.Line, key, err)})
			}
			fc.addSplit(fr, st, "assert_at", key+":"+as.Text, t, pos, "assertion at the call of "+cn)
			st.assume(t) // proved above: later assertions at the same call and the code after it may use it
			fc.assertSeen[key] = true
		}
	}
	// 1. extern model
	if ext := fc.p.externFor(callee); ext != nil {
		fc.note("assumed contract for " + fullName(callee))
		fc.closurePreserves(fr, st, call, callee, args, ext, false, pos)
		setRes(fc.callByContract(fr, st, callee, ext, callee.Signature, args, pos, fullName(callee), true))
		fc.havocClosureArgs(fr, st, call)
		fc.closurePreserves(fr, st, call, callee, args, ext, true, pos)
		return
	}
	if special, ok := fc.specialExtern(fr, st, callee, args, pos); ok {
		setRes(special)
		return
	}
	// 2. contract
	if c := fc.p.contractOf(callee); c != nil && !c.Inline && !fc.inlineRequested(callee) {
		if c.Trusted {
			fc.note("trusted contract for " + fullName(callee) + ": " + c.TrustWhy)
		}
		fc.closurePreserves(fr, st, call, callee, args, c, false, pos)
		setRes(fc.callByContract(fr, st, callee, c, callee.Signature, args, pos, funcKey(callee), false))
		fc.havocClosureArgs(fr, st, call)
		fc.closurePreserves(fr, st, call, callee, args, c, true, pos)
		return
	}
	// 3. inline
	if fc.p.inRepo(callee) && len(callee.Blocks) > 0 {
		if fr.depth > 12 {
			unsupp("inlining too deep at %s", callee)
		}
		c := fc.p.contractOf(callee)
		inl := fc.inlLoopsFor(callee)
		if c == nil && hasLoop(callee) && inl == nil {
			unsupp("call of %s at %s: callee has loops and no contract", funcKey(callee), fc.p.pos(pos))
		}
		if c != nil && !c.Inline {
			// inlined on request of the function under verification: its own loop clauses are not used
			c = nil
		}
		nf := fc.newFrame(callee, fr.prefix+">"+funcKey(callee), false)
		nf.contract = c
		nf.depth = fr.depth + 1
		nf.parent = fr
		nf.inlLoops = inl
		fc.inlined[fullName(callee)] = true
		if hasLoop(callee) {
			if fc.inlinedWithLoops == nil {
				fc.inlinedWithLoops = map[string]bool{}
			}
			fc.inlinedWithLoops[fullName(callee)] = true
		}
		rst, vals := fc.run(nf, st.clone(), args, fvs)
		if rst == nil {
			st.dead = true
			st.pc = False
			return
		}
		// adopt the callee's final state, dropping its cells
		for a := range rst.cells {
			if a.Parent() == callee {
				delete(rst.cells, a)
			}
		}
		*st = *rst
		switch len(vals) {
		case 0:
			setRes(Val{})
		case 1:
			setRes(vals[0])
		default:
			setRes(Val{Tup: vals})
		}
		return
	}
	unsupp("call of %s at %s: no contract, no model, not inlinable", fullName(callee), fc.p.pos(pos))
}

// inlineRequested: the contract of the function under verification gives loop clauses for this callee
// ("loop <n> in <callee>"), i.e. asks for the callee to be inlined here with these invariants.
func (fc *FuncCtx) inlineRequested(callee *ssa.Function) bool {
	if fc.contract == nil {
		return false
	}
	for k := range fc.contract.InlLoops {
		if i := strings.LastIndex(k, "#"); i >= 0 {
			k = k[:i]
		}
		if k == funcKey(callee) || k == fullName(callee) {
			return true
		}
	}
	return false
}

// inlLoopsFor: the loop clauses for the inlining of callee that is about to start (counted per callee:
// "<callee>#k" names the k-th inlining only, "<callee>" every inlining).
func (fc *FuncCtx) inlLoopsFor(callee *ssa.Function) map[int]*LoopContract {
	if !fc.inlineRequested(callee) {
		return nil
	}
	if fc.inlineCount == nil {
		fc.inlineCount = map[string]int{}
		fc.inlLoopsSeen = map[string]bool{}
	}
	fc.inlineCount[fullName(callee)]++
	n := fc.inlineCount[fullName(callee)]
	out := map[int]*LoopContract{}
	for _, base := range []string{funcKey(callee), fullName(callee)} {
		for _, k := range []string{base, fmt.Sprintf("%s#%d", base, n)} {
			if m, ok := fc.contract.InlLoops[k]; ok {
				fc.inlLoopsSeen[k] = true
				for i, lc := range m {
					out[i] = lc
				}
			}
		}
	}
	return out
}

// havocClosureArgs: a callee used through its contract may run the function literals it is given.
// Their effects are not described by the callee's contract, so after the call every captured
// variable of this frame that such a literal assigns, and every heap array it may write, is
// given an arbitrary value (facts the callee's ensures stated about those heaps are dropped too).
func (fc *FuncCtx) havocClosureArgs(fr *Frame, st *State, call *ssa.CallCommon) {
	for _, a := range call.Args {
		mc, ok := a.(*ssa.MakeClosure)
		if !ok {
			continue
		}
		fc.havocClosure(fr, st, mc, "effects of the function literal passed to "+call.String()+" are havocked after the call")
	}
}

// havocClosure gives an arbitrary value to every captured local of this frame that the function literal assigns
// and to every heap array it may write
func (fc *FuncCtx) havocClosure(fr *Frame, st *State, mc *ssa.MakeClosure, why string) {
	{
		cf := mc.Fn.(*ssa.Function)
		cells := map[*ssa.Alloc]bool{}
		mi := &modInfo{heaps: map[string]bool{}}
		for _, b := range cf.Blocks {
			for _, ins := range b.Instrs {
				fc.modOfInstr(nil, ins, nil, mi, 1)
				if sto, ok := ins.(*ssa.Store); ok {
					if fv, ok := sto.Addr.(*ssa.FreeVar); ok {
						for k, f := range cf.FreeVars {
							if f == fv {
								if al, ok := mc.Bindings[k].(*ssa.Alloc); ok {
									cells[al] = true
								} else {
									unsupp("function literal passed to a contracted callee assigns a captured variable that is not a local of the caller")
								}
							}
						}
					}
				}
			}
		}
		fc.note(why)
		if mi.allocs {
			na := Fresh("alloc.clo", SInt)
			st.assume(Le(st.alloc, na))
			st.alloc = na
		}
		var cl []*ssa.Alloc
		for c := range cells {
			cl = append(cl, c)
		}
		sort.Slice(cl, func(i, j int) bool { return cl[i].Pos() < cl[j].Pos() })
		for _, c := range cl {
			if old, ok := st.cells[c]; ok {
				et := c.Type().Underlying().(*types.Pointer).Elem()
				if old.T != nil {
					st.cells[c] = fc.freshVal("clo."+cellName(c), et, st)
				} else {
					unsupp("function literal passed to a contracted callee assigns pointer-valued local %s", cellName(c))
				}
			}
		}
		var hs []string
		for k := range mi.heaps {
			hs = append(hs, k)
		}
		sort.Strings(hs)
		for _, k := range hs {
			if strings.HasPrefix(k, "ghost:") || strings.HasPrefix(k, "FV:") {
				continue // ghost counters: below; FV: the captured cells, handled above
			}
			nh := Fresh(heapVarName(k)+".clo", heapSort(k, fc.p))
			fc.p.noteHeapVar(nh, k, st.alloc)
			st.setH(k, nh)
		}
		for g := range st.ghost {
			if mi.heaps["ghost:"+g] || mi.heaps["ghost:chan"] {
				st.ghost[g] = Fresh("ghost."+g+".clo", SInt)
			}
		}
	}
}

// closurePreserves handles the `preserves` clauses of the function literals handed to a callee that is used through
// its contract cc. Before the call (after == false) each clause is an obligation in the caller's state, the captured
// variables standing for the caller's locals; after the call and the havoc of the literal's effects (after == true)
// it is assumed. This is the invariant rule for an iterator that only calls its argument: the literal's own contract
// proves that each of its activations re-establishes the clause from the clause alone (it is its only precondition),
// and the callee writes nothing itself (`modifies nothing`), so the clause holds between the activations and at the end.
func (fc *FuncCtx) closurePreserves(fr *Frame, st *State, call *ssa.CallCommon, callee *ssa.Function, args []Val, cc *Contract, after bool, pos token.Pos) {
	for _, a := range call.Args {
		mc, ok := a.(*ssa.MakeClosure)
		if !ok {
			continue
		}
		cf := mc.Fn.(*ssa.Function)
		lc := fc.p.contractOf(cf)
		if lc == nil || (len(lc.Preserves) == 0 && lc.IteratedBy == "") {
			continue
		}
		if !cc.ModifiesSet || len(cc.Modifies) != 0 {
			unsupp("preserves clauses of %s: the callee at %s must be declared `modifies nothing`", funcKey(cf), fc.p.pos(pos))
		}
		if len(lc.Requires) != len(lc.Preserves)+len(lc.IterInvs) {
			unsupp("preserves clauses of %s: a function literal handed to a contracted callee cannot have other preconditions (no call site could establish them)", funcKey(cf))
		}
		if lc.Trusted {
			unsupp("preserves clauses of %s: the contract of the function literal must be proved, not trusted", funcKey(cf))
		}
		env := &Env{p: fc.p, pkg: cf.Pkg.Pkg, vars: map[string]SVal{}, cur: st}
		for k, fv := range cf.FreeVars {
			al, ok := mc.Bindings[k].(*ssa.Alloc)
			if !ok {
				continue
			}
			if v, ok := st.cells[al]; ok && v.T != nil {
				env.vars[fv.Name()] = SVal{T: v.T, Typ: al.Type().Underlying().(*types.Pointer).Elem()}
			}
		}
		if lc.IteratedBy != "" && callee != nil && len(callee.Params) > 0 && len(args) > 0 && args[0].T != nil {
			env.vars["$it"] = SVal{T: args[0].T, Typ: callee.Params[0].Type()} // the iterator's receiver
		}
		for _, pc := range lc.Preserves {
			t, err := env.ElabBool(pc.Expr)
			if err != nil {
				panic(elabErr{fmt.Sprintf("%s:%d: preserves of %s at %s: %v", lc.File, pc.Line, funcKey(cf), fc.p.pos(pos), err)})
			}
			if after {
				st.assume(t)
			} else {
				fc.addSplit(fr, st, "closure-inv", funcKey(cf)+":"+pc.Text, t, pos, "invariant of the function literal holds before it is handed to the iterator")
			}
		}
		if lc.IteratedBy != "" {
			// iterator protocol: the literal was verified as one activation of the loop of this very callee
			if callee == nil || callee != fc.p.funcs[lc.Pkg+"::"+lc.IteratedBy] || len(args) == 0 || args[0].T == nil {
				unsupp("function literal %s is declared iterated_by %s but is handed to another callee at %s", funcKey(cf), lc.IteratedBy, fc.p.pos(pos))
			}
			recv := SVal{T: args[0].T, Typ: callee.Params[0].Type()}
			_, ip, penv := fc.iterProtoEnv(lc, recv, st)
			env.vars["$it"] = recv
			elabAll := func(cls []*Clause) *Term {
				out := True
				for _, ic := range cls {
					t, err := env.ElabBool(ic.Expr)
					if err != nil {
						panic(elabErr{fmt.Sprintf("%s:%d: %s of %s at %s: %v", lc.File, ic.Line, ic.Kind, funcKey(cf), fc.p.pos(pos), err)})
					}
					out = And(out, t)
				}
				return out
			}
			if !after {
				if fc.iterPre == nil {
					fc.iterPre = map[*ssa.CallCommon]*Term{}
				}
				fc.iterPre[call] = penv.elab(ip.Stable).T
				env.vars["$k"] = SVal{T: IntLit(0), Typ: tInt}
				for _, ic := range lc.IterInvs {
					t, err := env.ElabBool(ic.Expr)
					if err != nil {
						panic(elabErr{fmt.Sprintf("%s:%d: iterinv of %s at %s: %v", lc.File, ic.Line, funcKey(cf), fc.p.pos(pos), err)})
					}
					fc.addSplit(fr, st, "iter-inv0", funcKey(cf)+":"+ic.Text, t, pos, "indexed invariant of the function literal holds for $k == 0 before it is handed to the iterator")
				}
			} else {
				// every activation left <stable> unchanged; either no activation returned true and the invariant
				// holds for $k == count, or one did and the stop condition holds
				st.assume(Eq(penv.elab(ip.Stable).T, fc.iterPre[call]))
				env.vars["$k"] = SVal{T: penv.elab(ip.Count).T, Typ: tInt}
				stop := False
				if len(lc.IterStops) > 0 {
					stop = elabAll(lc.IterStops)
				}
				st.assume(Or(elabAll(lc.IterInvs), stop))
			}
		}
		if after {
			fc.note("preserved invariant of the function literal " + funcKey(cf) + " is assumed after " + call.String() + " (proved for the literal, established before the call; the callee modifies nothing)")
		}
	}
}

func typeKeyShort(t types.Type) string {
	return types.TypeString(t, func(p *types.Package) string { return "" })
}

func (fc *FuncCtx) srcAt(fr *Frame, pos token.Pos) string {
	return fc.p.pos(pos)
}

func hasLoop(f *ssa.Function) bool {
	for _, b := range f.Blocks {
		for _, s := range b.Succs {
			if isBackEdge(b, s) {
				return true
			}
		}
	}
	return false
}

// callByContract: assert pre, havoc the frame, assume post.
func (fc *FuncCtx) callByContract(fr *Frame, st *State, callee *ssa.Function, c *Contract, sig *types.Signature, args []Val, pos token.Pos, name string, assumed bool) Val {
	if (strings.HasSuffix(name, "sync.WaitGroup).Wait") || strings.HasSuffix(name, "sync.(*WaitGroup).Wait")) && len(spawnedLiterals(fr.fn)) > 0 {
		// the goroutines this frame started may have run until now
		fc.rehavocSpawned(fr, st, pos)
	}
	env := &Env{p: fc.p, vars: map[string]SVal{}, cur: st}
	if callee != nil && callee.Pkg != nil {
		env.pkg = callee.Pkg.Pkg
	} else {
		env.pkg = fr.fn.Pkg.Pkg
	}
	if pk, ok := fc.p.pkgs[c.Pkg]; ok && pk.Types != nil && !(c.Trusted && c.TrustWhy == "external dependency") {
		env.pkg = pk.Types
	}
	// bind parameters
	names := paramNames(callee, c)
	var ptypes []types.Type
	if sig.Recv() != nil {
		ptypes = append(ptypes, sig.Recv().Type())
	}
	for i := 0; i < sig.Params().Len(); i++ {
		ptypes = append(ptypes, sig.Params().At(i).Type())
	}
	if callee == nil && len(c.Params) == 0 {
		// interface contract without explicit params: recv + signature names
		names = []string{"recv"}
		for i := 0; i < sig.Params().Len(); i++ {
			names = append(names, sig.Params().At(i).Name())
		}
		if len(ptypes) < len(args) {
			ptypes = append([]types.Type{nil}, ptypes...)
		}
	}
	for i, a := range args {
		if i < len(names) && a.T != nil {
			var pt types.Type
			if i < len(ptypes) {
				pt = ptypes[i]
			}
			env.vars[names[i]] = SVal{T: a.T, Typ: pt}
		}
		if i < len(names) && a.T == nil && a.Tup != nil && i < len(ptypes) && ptypes[i] != nil {
			// struct value argument (snapshot of the scalar fields): <param>_<Field>
			if sty, ok := ptypes[i].Underlying().(*types.Struct); ok && sty.NumFields() == len(a.Tup) {
				for k, fv := range a.Tup {
					if fv.T != nil {
						env.vars[names[i]+"_"+sty.Field(k).Name()] = SVal{T: fv.T, Typ: sty.Field(k).Type()}
					}
				}
			}
		}
	}
	site := name
	for _, rq := range c.Requires {
		t, err := env.ElabBool(rq.Expr)
		if err != nil {
			panic(elabErr{fmt.Sprintf("%s:%d: requires of %s at call site %s: %v", c.File, rq.Line, name, fc.p.pos(pos), err)})
		}
		fc.addSplit(fr, st, "pre", site+":"+rq.Text, t, pos, "precondition of "+name)
		st.assume(t)
	}
	old := st.clone()
	// havoc
	locs, err := fc.modLocsOf(c, env)
	if err != nil {
		panic(elabErr{err.Error()})
	}
	byHeap := map[string][]ModLoc{}
	var order []string
	for _, l := range locs {
		if _, ok := byHeap[l.Heap]; !ok {
			order = append(order, l.Heap)
		}
		byHeap[l.Heap] = append(byHeap[l.Heap], l)
	}
	na := Fresh("alloc.call", SInt)
	st.assume(Le(st.alloc, na))
	st.alloc = na
	for _, h := range order {
		if strings.HasPrefix(h, "ghost:") {
			continue
		}
		before := st.H(fc.p, h)
		after := Fresh(heapVarName(h)+".call", before.Sort)
		fc.p.noteHeapVar(after, h, na)
		st.setH(h, after)
		// assumed without the "allocated before the call" guard: the content of
		// cells that were not yet allocated is unobservable in the pre-state, so it
		// may be taken equal to what the callee leaves there
		st.assume(fc.frameFormula(h, before, after, nil, byHeap[h]))
	}
	// results
	var resVals []Val
	nres := sig.Results().Len()
	env2 := &Env{p: fc.p, pkg: env.pkg, vars: map[string]SVal{}, cur: st, old: old}
	for k, v := range env.vars {
		env2.vars[k] = v
	}
	if len(c.Callbacks) > 0 {
		envPre := *env
		envPre.cur, envPre.old = old, old
		env2.fnsyms = map[string]*fnSym{}
		for _, cb := range c.Callbacks {
			env2.fnsyms[cb.Fn] = fc.callbackSym(fr, st, old, &envPre, c, cb, names, ptypes, args, pos, name)
		}
	}
	for i := 0; i < nres; i++ {
		rv := sig.Results().At(i)
		v := fc.freshVal("ret."+sanitize(name), rv.Type(), st)
		resVals = append(resVals, v)
		if v.T != nil {
			sv := SVal{T: v.T, Typ: rv.Type()}
			if rv.Name() != "" && rv.Name() != "_" {
				env2.vars[rv.Name()] = sv
			}
			env2.vars[fmt.Sprintf("result%d", i)] = sv
			if i == 0 {
				env2.vars["result"] = sv
			}
		}
		bindStructResult(env2.vars, rv, i, v)
	}
	for _, en := range c.Ensures {
		t, err := env2.ElabBool(en.Expr)
		if err != nil {
			panic(elabErr{fmt.Sprintf("%s:%d: ensures of %s at call site %s: %v", c.File, en.Line, name, fc.p.pos(pos), err)})
		}
		st.assume(t)
	}
	if c.AllowExit {
		fc.note("callee " + name + " may terminate the process (allowexit)")
	}
	switch nres {
	case 0:
		return Val{}
	case 1:
		return resVals[0]
	}
	return Val{Tup: resVals}
}

func (fc *FuncCtx) modLocsOf(c *Contract, env *Env) ([]ModLoc, error) {
	var out []ModLoc
	for _, m := range c.Modifies {
		locs, err := elabModLoc(fc.p, m, env)
		if err != nil {
			return nil, fmt.Errorf("%s:%d: modifies %s: %v", c.File, c.Line, m, err)
		}
		out = append(out, locs...)
	}
	return out, nil
}

// ---- builtins ----

func (fc *FuncCtx) builtin(fr *Frame, st *State, bi *ssa.Builtin, call *ssa.CallCommon, pos token.Pos) Val {
	arg := func(i int) Val { return fc.value(fr, call.Args[i]) }
	switch bi.Name() {
	case "ssa:deferstack":
		return Val{}
	case "ssa:wrapnilchk":
		return arg(0)
	case "len":
		v := arg(0)
		switch u := call.Args[0].Type().Underlying().(type) {
		case *types.Slice:
			return Val{T: SLen(v.T)}
		case *types.Basic:
			return Val{T: App("str_len", SInt, v.T)}
		case *types.Map:
			if tb := fc.p.tableOfRef(v.T); tb != nil {
				return Val{T: IntLit(int64(len(tb.Entries)))}
			}
			_, _, l := fc.p.mapHeaps(u)
			n := Ite(Eq(v.T, IntLit(0)), IntLit(0), Select(st.H(fc.p, l), v.T))
			st.assume(Le(IntLit(0), n))
			return Val{T: n}
		case *types.Pointer:
			if at, ok := u.Elem().Underlying().(*types.Array); ok {
				return Val{T: IntLit(at.Len())}
			}
		case *types.Chan:
			return Val{T: Fresh("chanlen", SInt)}
		}
		unsupp("len of %s", call.Args[0].Type())
	case "cap":
		v := arg(0)
		if _, ok := call.Args[0].Type().Underlying().(*types.Slice); ok {
			return Val{T: SCap(v.T)}
		}
		unsupp("cap of %s", call.Args[0].Type())
	case "append":
		return fc.appendOp(fr, st, call, pos)
	case "copy":
		return fc.copyOp(fr, st, call, pos)
	case "delete":
		m, k := arg(0).T, arg(1).T
		mt := call.Args[0].Type().Underlying().(*types.Map)
		d, _, l := fc.p.mapHeaps(mt)
		k = coerceT(k, sortOf(mt.Key()))
		hd, hl := st.H(fc.p, d), st.H(fc.p, l)
		was := Select(Select(hd, m), k)
		// delete on a nil map is a no-op
		nz := Neq(m, IntLit(0))
		st.setH(l, Ite(nz, Store(hl, m, Sub(Select(hl, m), Ite(was, IntLit(1), IntLit(0)))), hl))
		st.setH(d, Ite(nz, Store(hd, m, Store(Select(hd, m), k, False)), hd))
		return Val{}
	case "close":
		fc.ghostAdd(st, "closed", 1)
		return Val{}
	case "min", "max":
		a, b := arg(0).T, arg(1).T
		a, b, _ = numSort(a, b)
		if bi.Name() == "min" {
			return Val{T: Ite(Le(a, b), a, b)}
		}
		return Val{T: Ite(Ge(a, b), a, b)}
	case "print", "println":
		return Val{}
	case "real":
		// real part of a complex128 (opaque sort Cplx): an uninterpreted function of the value
		if v := arg(0); v.T != nil && v.T.Sort == SCplx && floatSort == SReal {
			return Val{T: App("cplx_re", SReal, v.T)}
		}
	}
	unsupp("builtin %s", bi.Name())
	return Val{}
}

func (fc *FuncCtx) appendOp(fr *Frame, st *State, call *ssa.CallCommon, pos token.Pos) Val {
	s := fc.value(fr, call.Args[0]).T
	sl := call.Args[0].Type().Underlying().(*types.Slice)
	elS := sortOf(sl.Elem())
	// second argument: slice or string
	tv := fc.value(fr, call.Args[1])
	newRef := fc.newRef(st)
	newCap := Fresh("append.cap", SInt)
	if elS == nil {
		// slice of flat structs: the same copy in every per-field element heap
		flds := flatStructFields(sl.Elem())
		if flds == nil {
			unsupp("append on []%s", sl.Elem())
		}
		var res Val
		for _, f := range flds {
			res = fc.appendHeap(st, fc.p.elemFieldHeap(sl.Elem(), f), sortOf(f.Type()), s, tv, newRef, newCap)
		}
		return res
	}
	return fc.appendHeap(st, fc.p.elemHeap(sl.Elem()), elS, s, tv, newRef, newCap)
}

// appendHeap: the effect of append(s, tv...) on one element heap; newRef/newCap are the array and the
// capacity chosen when the result does not fit (shared by the per-field heaps of a slice of structs)
func (fc *FuncCtx) appendHeap(st *State, h string, elS *Sort, s *Term, tv Val, newRef, newCap *Term) Val {
	M := st.H(fc.p, h)
	rowS := ArraySort(SInt, elS)
	var n *Term
	var elemAt func(k *Term) *Term
	if tv.T.Sort == SStr {
		n = App("str_len", SInt, tv.T)
		elemAt = func(k *Term) *Term { return App("str_at", SInt, tv.T, k) }
	} else {
		n = SLen(tv.T)
		trow := Select(M, SBase(tv.T))
		elemAt = func(k *Term) *Term { return At(trow, SOff(tv.T), k) }
	}
	ln := SLen(s)
	newLen := Add(ln, n)
	fits := Le(newLen, SCap(s))
	srow := Select(M, SBase(s))
	one, isOne := n.isInt()
	var inPlaceRow, freshRow *Term
	if isOne && one == 1 {
		x := elemAt(IntLit(0))
		inPlaceRow = Store(srow, Add(SOff(s), ln), x)
		fr0 := Fresh("append.row", rowS)
		k := BVar("k", SInt)
		st.assume(Forall([]*Term{k}, Implies(And(Le(IntLit(0), k), Lt(k, ln)), Eq(At(fr0, IntLit(0), k), At(srow, SOff(s), k)))))
		freshRow = Store(fr0, ln, x)
	} else if isOne && one == 0 {
		inPlaceRow = srow
		freshRow = srow
	} else {
		ip := Fresh("append.inplace", rowS)
		k := BVar("k", SInt)
		// in place: positions [off+len, off+len+n) receive the new elements, others unchanged
		st.assume(Forall([]*Term{k}, Eq(Select(ip, k),
			Ite(And(Le(Add(SOff(s), ln), k), Lt(k, Add(SOff(s), newLen))), elemAt(Sub(k, Add(SOff(s), ln))), Select(srow, k)))))
		inPlaceRow = ip
		fr0 := Fresh("append.row", rowS)
		k2 := BVar("k", SInt)
		st.assume(Forall([]*Term{k2}, Implies(And(Le(IntLit(0), k2), Lt(k2, newLen)), Eq(At(fr0, IntLit(0), k2),
			Ite(Lt(k2, ln), At(srow, SOff(s), k2), elemAt(Sub(k2, ln)))))))
		freshRow = fr0
	}
	st.assume(Le(newLen, newCap))
	// n == 0 and nil s: Go returns s itself when nothing is appended... (append(nil) stays nil; with n==0 result is s)
	res := Ite(fits, SliceMk(SBase(s), SOff(s), newLen, SCap(s)), SliceMk(newRef, IntLit(0), newLen, newCap))
	M2 := Ite(fits, Store(M, SBase(s), inPlaceRow), Store(M, newRef, freshRow))
	st.setH(h, M2)
	return Val{T: res}
}

func (fc *FuncCtx) copyOp(fr *Frame, st *State, call *ssa.CallCommon, pos token.Pos) Val {
	d := fc.value(fr, call.Args[0]).T
	sv := fc.value(fr, call.Args[1])
	sl := call.Args[0].Type().Underlying().(*types.Slice)
	elS := sortOf(sl.Elem())
	if elS == nil {
		unsupp("copy on []%s", sl.Elem())
	}
	h := fc.p.elemHeap(sl.Elem())
	M := st.H(fc.p, h)
	var n *Term
	var elemAt func(k *Term) *Term
	if sv.T.Sort == SStr {
		n = App("str_len", SInt, sv.T)
		elemAt = func(k *Term) *Term { return App("str_at", SInt, sv.T, k) }
	} else {
		n = SLen(sv.T)
		srow := Select(M, SBase(sv.T))
		elemAt = func(k *Term) *Term { return At(srow, SOff(sv.T), k) }
	}
	cnt := Ite(Le(SLen(d), n), SLen(d), n)
	drow := Select(M, SBase(d))
	nr := Fresh("copy.row", ArraySort(SInt, elS))
	k := BVar("k", SInt)
	st.assume(Forall([]*Term{k}, Eq(Select(nr, k),
		Ite(And(Le(SOff(d), k), Lt(k, Add(SOff(d), cnt))), elemAt(Sub(k, SOff(d))), Select(drow, k)))))
	// the same fact at the level of the destination view (gives element-read triggers)
	k3 := BVar("k", SInt)
	st.assume(Forall([]*Term{k3}, Implies(And(Le(IntLit(0), k3), Lt(k3, cnt)), Eq(At(nr, SOff(d), k3), elemAt(k3))), []*Term{At(nr, SOff(d), k3)}))
	st.setH(h, Ite(Gt(cnt, IntLit(0)), Store(M, SBase(d), nr), M))
	return Val{T: cnt}
}

// specialExtern: library functions modelled directly by the generator
func (fc *FuncCtx) specialExtern(fr *Frame, st *State, callee *ssa.Function, args []Val, pos token.Pos) (Val, bool) {
	name := fullName(callee)
	switch name {
	case "unicode.ToUpper", "unicode.ToLower":
		fn := "toupper8"
		if name == "unicode.ToLower" {
			fn = "tolower8"
		}
		// exact on 0..255 (table generated from Go's unicode package); other runes: opaque
		x := args[0].T
		fc.addObl(fr, st, "model", name+" argument is a byte", And(Le(IntLit(0), x), Le(x, IntLit(255))), pos, "unicode case mapping is modelled on bytes only")
		fc.note(name + " on bytes: 256-entry table generated from Go's unicode package when the engine is built")
		return Val{T: App(fn, SInt, x)}, true
	case "fmt.Sprintf":
		// fmt.Sprintf("%d", n) with an integer n: the decimal representation, an injective function of n
		// (str_itoa with the inverse str_atoi); every other use is an arbitrary string
		if len(args) == 2 && args[0].T != nil && args[0].T.Op == "strlit" && args[0].T.Name == "%d" && args[1].T != nil {
			sl := args[1].T
			h := fc.p.elemHeap(callee.Signature.Params().At(1).Type().Underlying().(*types.Slice).Elem())
			el := Select(Select(st.H(fc.p, h), SBase(sl)), Add(SOff(sl), IntLit(0)))
			if one, ok := SLen(sl).isInt(); ok && one == 1 {
				if bv, ok := fc.p.boxed[el]; ok && bv.T.Sort == SInt {
					if b, isB := bv.Typ.Underlying().(*types.Basic); isB && b.Info()&types.IsInteger != 0 {
						fc.note("fmt.Sprintf(\"%d\", n) is modelled as an injective function of n (decimal representation)")
						return Val{T: App("str_itoa", SStr, bv.T)}, true
					}
				}
			}
		}
		return Val{T: Fresh("sprintf", SStr)}, true
	case "math.IsNaN":
		if args[0].T.Sort == SXReal {
			return Val{T: XIsNaN(args[0].T)}, true
		}
		return Val{T: False}, true
	case "math.IsInf":
		if args[0].T.Sort == SXReal {
			x, sg := args[0].T, args[1].T
			return Val{T: Or(And(Ge(sg, IntLit(0)), XIsPInf(x)), And(Le(sg, IntLit(0)), XIsNInf(x)))}, true
		}
		return Val{T: False}, true
	case "math.NaN":
		if floatSort == SXReal {
			return Val{T: XNaN}, true
		}
		unsupp("math.NaN in real float mode")
	case "math.Max", "math.Min":
		if args[0].T.Sort == SXReal || args[1].T.Sort == SXReal {
			if name == "math.Max" {
				return Val{T: XMax(args[0].T, args[1].T)}, true
			}
			return Val{T: XMin(args[0].T, args[1].T)}, true
		}
		a, b := ToReal(args[0].T), ToReal(args[1].T)
		if name == "math.Max" {
			return Val{T: Ite(Ge(a, b), a, b)}, true
		}
		return Val{T: Ite(Le(a, b), a, b)}, true
	case "math.Log", "math.Exp", "math.Sqrt":
		if args[0].T.Sort == SXReal {
			fc.note(name + " on extended reals: IEEE special cases exact, finite values through an uninterpreted real function with ground-instantiated axioms")
			switch name {
			case "math.Log":
				return Val{T: XLn(args[0].T)}, true
			case "math.Exp":
				return Val{T: XExp(args[0].T)}, true
			}
			return Val{T: XSqrt(args[0].T)}, true
		}
		fn := map[string]string{"math.Log": "m_ln", "math.Exp": "m_exp", "math.Sqrt": "m_sqrt"}[name]
		x := args[0].T
		if name == "math.Log" {
			fc.addObl(fr, st, "fdomain", "math.Log argument > 0", Gt(x, RealLitStr("0")), pos, "logarithm of a non-positive number (model validity: result would be NaN/-Inf)")
		}
		if name == "math.Sqrt" {
			fc.addObl(fr, st, "fdomain", "math.Sqrt argument >= 0", Ge(x, RealLitStr("0")), pos, "square root of a negative number (model validity)")
		}
		fc.note(name + " is an uninterpreted real function with ground-instantiated axioms")
		return Val{T: App(fn, SReal, x)}, true
	case "math.Pow":
		if args[0].T.Sort == SXReal || args[1].T.Sort == SXReal {
			fc.note("math.Pow on extended reals: finite arguments exact by cases (negative base with non-integer exponent is NaN), other special-value combinations unconstrained")
			return Val{T: XPow(args[0].T, args[1].T)}, true
		}
		fc.addObl(fr, st, "fdomain", "math.Pow base > 0", Gt(args[0].T, RealLitStr("0")), pos, "power of a non-positive base (model validity)")
		return Val{T: App("m_pow", SReal, args[0].T, args[1].T)}, true
	case "math.Abs":
		x := args[0].T
		if x.Sort == SXReal {
			return Val{T: XAbs(x)}, true
		}
		return Val{T: Ite(Ge(x, RealLitStr("0")), x, Neg(x))}, true
	case "math.Inf":
		if floatSort == SXReal {
			return Val{T: Ite(Ge(args[0].T, IntLit(0)), XPInf, XNInf)}, true
		}
		unsupp("math.Inf in real float mode")
	case modulePath + "/io.ExitWithMessage":
		// terminates the process (os.Exit): never returns. Reaching it is an
		// obligation failure unless the function under contract is marked allowexit.
		if fc.contract == nil || !fc.contract.AllowExit {
			fc.addObl(fr, st, "noexit", "io.ExitWithMessage", False, pos, "io.ExitWithMessage (os.Exit) is unreachable")
		} else {
			fc.note("io.ExitWithMessage is reachable in " + funcKey(fc.top) + " (allowexit): ending the process is accepted there")
		}
		st.dead = true
		st.pc = False
		return Val{}, true
	case "math/bits.OnesCount8":
		return Val{T: App("ones8", SInt, args[0].T)}, true
	}
	return Val{}, false
}

// callbackSym gives meaning to fnres(fn, ...) in the ensures of a callee that has a `callback fn x.. : dom` clause.
// st is the state after the callee's frame has been havocked (its ensures are not assumed yet): an arbitrary state
// that differs from the pre-state `old` by the modifies set only, i.e. a state in which the callee may run fn.
// When the argument is a function literal with a `modifies nothing` contract that assigns no captured variable:
//   - proved: the literal's requires hold on the domain in every such state            (callback-pre)
//   - proved: what its ensures say about a result in such a state holds in the pre-state too   (callback-stable)
//   - assumed: forall arguments in the domain, the ensures hold in the pre-state for fnres(fn, arguments)
//
// Otherwise fnres is an unconstrained function.
func (fc *FuncCtx) callbackSym(fr *Frame, st, old *State, envPre *Env, c *Contract, cb *Callback, names []string, ptypes []types.Type, args []Val, pos token.Pos, name string) *fnSym {
	idx := -1
	for i, n := range names {
		if n == cb.Fn {
			idx = i
		}
	}
	if idx < 0 || idx >= len(args) || idx >= len(ptypes) || ptypes[idx] == nil {
		panic(elabErr{fmt.Sprintf("%s:%d: callback %s: no such parameter of %s", c.File, cb.Dom.Line, cb.Fn, name)})
	}
	fsig, ok := ptypes[idx].Underlying().(*types.Signature)
	if !ok || fsig.Results().Len() != 1 || fsig.Params().Len() != len(cb.Vars) {
		panic(elabErr{fmt.Sprintf("%s:%d: callback %s: parameter must be a function with %d parameter(s) and one result", c.File, cb.Dom.Line, cb.Fn, len(cb.Vars))})
	}
	fs := &fnSym{typ: fsig.Results().At(0).Type(), ret: sortOf(fsig.Results().At(0).Type())}
	var ptyps []types.Type
	for i := 0; i < fsig.Params().Len(); i++ {
		pt := fsig.Params().At(i).Type()
		ptyps = append(ptyps, pt)
		fs.args = append(fs.args, sortOf(pt))
		if sortOf(pt) == nil {
			unsupp("callback %s of %s: parameter type %s", cb.Fn, name, pt)
		}
	}
	if fs.ret == nil {
		unsupp("callback %s of %s: result type %s", cb.Fn, name, fs.typ)
	}
	fc.p.cbCount++
	fs.name = fmt.Sprintf("cb.%s.%d", sanitize(name), fc.p.cbCount)
	TB.funs[fs.name] = &FunDecl{Name: fs.name, Args: fs.args, Ret: fs.ret}
	TB.funOrd = append(TB.funOrd, fs.name)
	fv := args[idx].Fn
	var cf *ssa.Function
	var cc *Contract
	if fv != nil {
		cf = fv.Fn
		cc = fc.p.contractOf(cf)
	}
	usable := cc != nil && cc.ModifiesSet && len(cc.Modifies) == 0 && len(cf.Params) == len(cb.Vars) && len(fv.Bindings) == len(cf.FreeVars)
	if usable {
		for _, b := range cf.Blocks {
			for _, ins := range b.Instrs {
				if sto, ok := ins.(*ssa.Store); ok {
					if _, isFV := sto.Addr.(*ssa.FreeVar); isFV {
						usable = false
					}
				}
			}
		}
	}
	if !usable {
		fc.note("result of the function value passed to " + name + " is unconstrained (no function literal with a `modifies nothing` contract)")
		return fs
	}
	fc.note("function literal " + funcKey(cf) + " passed to " + name + ": used through its own contract (callback clause of the assumed contract)")
	// environments: the callee's parameters plus the callback arguments for the domain; the literal's own parameters
	// and captured variables for its contract
	domEnv := func(xs []*Term) *Env {
		vars := map[string]SVal{}
		for i, v := range cb.Vars {
			vars[v] = SVal{T: xs[i], Typ: ptyps[i]}
		}
		return envPre.with(vars)
	}
	cloEnv := func(in *State, xs []*Term, res *Term) *Env {
		e := &Env{p: fc.p, pkg: cf.Pkg.Pkg, vars: map[string]SVal{}, cur: in, old: in}
		for i, prm := range cf.Params {
			e.vars[prm.Name()] = SVal{T: xs[i], Typ: prm.Type()}
		}
		if res != nil {
			rv := cf.Signature.Results().At(0)
			sv := SVal{T: res, Typ: rv.Type()}
			if rv.Name() != "" && rv.Name() != "_" {
				e.vars[rv.Name()] = sv
			}
			e.vars["result"] = sv
			e.vars["result0"] = sv
		}
		e.local = func(n string) (SVal, bool) {
			for k, f := range cf.FreeVars {
				if f.Name() != n {
					continue
				}
				b := fv.Bindings[k]
				if b.LV != nil {
					if v := fc.load(fr, in, b.LV, token.NoPos); v.T != nil {
						return SVal{T: v.T, Typ: b.LV.Typ}, true
					}
				}
				if b.T != nil {
					return SVal{T: b.T, Typ: f.Type()}, true
				}
			}
			return SVal{}, false
		}
		return e
	}
	elabAll := func(e *Env, cls []*Clause) *Term {
		out := True
		for _, cl := range cls {
			t, err := e.ElabBool(cl.Expr)
			if err != nil {
				panic(elabErr{fmt.Sprintf("%s:%d: contract of %s at its use as callback of %s (%s): %v", cc.File, cl.Line, funcKey(cf), name, fc.p.pos(pos), err)})
			}
			out = And(out, t)
		}
		return out
	}
	elabDom := func(xs []*Term) *Term {
		t, err := domEnv(xs).ElabBool(cb.Dom.Expr)
		if err != nil {
			panic(elabErr{fmt.Sprintf("%s:%d: callback domain of %s at %s: %v", c.File, cb.Dom.Line, name, fc.p.pos(pos), err)})
		}
		return t
	}
	// 1, 2: obligations over arbitrary arguments in an arbitrary intermediate state
	mid := st.clone()
	var xs []*Term
	for i, v := range cb.Vars {
		xs = append(xs, Fresh("cb."+v, fs.args[i]))
	}
	r := Fresh("cb.res", fs.ret)
	dom := elabDom(xs)
	site := name + ":" + cb.Fn
	fc.addSplit(fr, mid, "callback-pre", site, Implies(dom, elabAll(cloEnv(mid, xs, nil), cc.Requires)), pos, "precondition of the function literal on the arguments and in the states the callee may call it with")
	fc.addSplit(fr, mid, "callback-stable", site,
		Implies(And(dom, elabAll(cloEnv(mid, xs, nil), cc.Requires), elabAll(cloEnv(mid, xs, r), cc.Ensures)), elabAll(cloEnv(old, xs, r), cc.Ensures)),
		pos, "the postcondition of the function literal does not depend on what the callee modifies")
	// 3: the literal's postcondition, in the pre-state, for every argument tuple of the domain
	var bs []*Term
	for i, v := range cb.Vars {
		bs = append(bs, BVar("cb$"+v, fs.args[i]))
	}
	app := App(fs.name, fs.ret, bs...)
	st.assume(Forall(bs, Implies(elabDom(bs), elabAll(cloEnv(old, bs, app), cc.Ensures)), []*Term{app}))
	return fs
}
