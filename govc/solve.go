package main

// Query assembly and the solver race.

import (
	"bytes"
	"context"
	"fmt"
	"os"
	"os/exec"
	"path/filepath"
	"sort"
	"strings"
	"sync"
	"time"
	"unicode"
)

const basePrelude = `(set-option :produce-models true)
(set-logic ALL)
(declare-datatypes ((Slice 0)) (((mk-slice (s-base Int) (s-off Int) (s-len Int) (s-cap Int)))))
(declare-sort Str 0)
(declare-fun str_len (Str) Int)
(declare-fun str_at (Str Int) Int)
(declare-sort Cplx 0)
(declare-fun cplx_re (Cplx) Real)
(define-fun godiv ((a Int) (b Int)) Int (ite (>= a 0) (ite (> b 0) (div a b) (- (div a (- b)))) (ite (> b 0) (- (div (- a) b)) (div (- a) (- b)))))
(define-fun gomod ((a Int) (b Int)) Int (- a (* b (godiv a b))))
`

type preludePart struct {
	syms []string // function symbols triggering inclusion
	text string
	deps []string
}

func caseTable(name string, f func(rune) rune) string {
	var sb strings.Builder
	fmt.Fprintf(&sb, "(define-fun %s ((c Int)) Int ", name)
	// group into maximal runs with constant delta
	type run struct{ lo, hi, delta int }
	var runs []run
	for c := 0; c < 256; c++ {
		d := int(f(rune(c))) - c
		if d == 0 {
			continue
		}
		if n := len(runs); n > 0 && runs[n-1].hi == c-1 && runs[n-1].delta == d {
			runs[n-1].hi = c
		} else {
			runs = append(runs, run{c, c, d})
		}
	}
	closeP := 0
	for _, r := range runs {
		fmt.Fprintf(&sb, "(ite (and (<= %d c) (<= c %d)) (+ c %s) ", r.lo, r.hi, smtInt(fmt.Sprint(r.delta)))
		closeP++
	}
	sb.WriteString("c")
	sb.WriteString(strings.Repeat(")", closeP))
	sb.WriteString(")\n")
	return sb.String()
}

func bitFun(name string, op string) string {
	// 8-bit bitwise operation via div/mod by constants
	var sb strings.Builder
	fmt.Fprintf(&sb, "(define-fun %s ((a Int) (b Int)) Int (+", name)
	for k := 0; k < 8; k++ {
		p := 1 << uint(k)
		ba := fmt.Sprintf("(= (mod (div a %d) 2) 1)", p)
		bb := fmt.Sprintf("(= (mod (div b %d) 2) 1)", p)
		var cond string
		switch op {
		case "and":
			cond = "(and " + ba + " " + bb + ")"
		case "or":
			cond = "(or " + ba + " " + bb + ")"
		case "xor":
			cond = "(xor " + ba + " " + bb + ")"
		case "andnot":
			cond = "(and " + ba + " (not " + bb + "))"
		}
		fmt.Fprintf(&sb, " (ite %s %d 0)", cond, p)
	}
	sb.WriteString("))\n")
	return sb.String()
}

var preludeParts []preludePart

func init() {
	preludeParts = []preludePart{
		{syms: []string{"toupper8"}, text: caseTable("toupper8", unicode.ToUpper)},
		{syms: []string{"tolower8"}, text: caseTable("tolower8", unicode.ToLower)},
		{syms: []string{"band8"}, text: bitFun("band8", "and")},
		{syms: []string{"bor8"}, text: bitFun("bor8", "or")},
		{syms: []string{"bxor8"}, text: bitFun("bxor8", "xor")},
		{syms: []string{"bandnot8"}, text: bitFun("bandnot8", "andnot")},
		{syms: []string{"ones8"}, text: "(define-fun ones8 ((a Int)) Int (+ (mod a 2) (mod (div a 2) 2) (mod (div a 4) 2) (mod (div a 8) 2) (mod (div a 16) 2) (mod (div a 32) 2) (mod (div a 64) 2) (mod (div a 128) 2)))\n"},
		{syms: []string{"bandI"}, text: "(declare-fun bandI (Int Int) Int)\n"},
		{syms: []string{"borI"}, text: "(declare-fun borI (Int Int) Int)\n"},
		{syms: []string{"bxorI"}, text: "(declare-fun bxorI (Int Int) Int)\n"},
		{syms: []string{"bandnotI"}, text: "(declare-fun bandnotI (Int Int) Int)\n"},
		{syms: []string{"shlI"}, text: "(declare-fun shlI (Int Int) Int)\n"},
		{syms: []string{"shrI"}, text: "(declare-fun shrI (Int Int) Int)\n"},
		{syms: []string{"m_ln"}, text: "(declare-fun m_ln (Real) Real)\n"},
		{syms: []string{"m_exp"}, text: "(declare-fun m_exp (Real) Real)\n"},
		{syms: []string{"m_sqrt"}, text: "(declare-fun m_sqrt (Real) Real)\n"},
		{syms: []string{"m_pow"}, text: "(declare-fun m_pow (Real Real) Real)\n"},
		{syms: []string{"str_lt"}, text: "(declare-fun str_lt (Str Str) Bool)\n"},
		{syms: []string{"str_of"}, text: `(declare-fun str_of ((Array Int Int) Int Int) Str)
(assert (forall ((A (Array Int Int)) (o Int) (n Int)) (! (=> (>= n 0) (= (str_len (str_of A o n)) n)) :pattern ((str_of A o n)))))
(assert (forall ((A (Array Int Int)) (o Int) (n Int) (k Int)) (! (=> (and (<= 0 k) (< k n)) (= (str_at (str_of A o n) k) (select A (+ o k)))) :pattern ((str_at (str_of A o n) k)))))
`},
		{syms: []string{"bytes_of"}, text: `(declare-fun bytes_of (Str) (Array Int Int))
(assert (forall ((s Str) (k Int)) (! (=> (and (<= 0 k) (< k (str_len s))) (= (select (bytes_of s) k) (str_at s k))) :pattern ((select (bytes_of s) k)))))
`},
		{syms: []string{"str_eq"}, text: `(declare-fun str_eq (Str Str) Bool)
(declare-fun str_diff (Str Str) Int)
(assert (forall ((s Str) (t Str)) (! (and (= (str_eq s t) (= s t)) (or (= s t) (not (= (str_len s) (str_len t))) (and (<= 0 (str_diff s t)) (< (str_diff s t) (str_len s)) (not (= (str_at s (str_diff s t)) (str_at t (str_diff s t))))))) :pattern ((str_eq s t)))))
`},
		{syms: []string{"str_repl1"}, text: `(declare-fun str_repl1 (Str Int Int) Str)
(assert (forall ((s Str) (a Int) (b Int)) (! (= (str_len (str_repl1 s a b)) (str_len s)) :pattern ((str_repl1 s a b)))))
(assert (forall ((s Str) (a Int) (b Int) (k Int)) (! (=> (and (<= 0 k) (< k (str_len s))) (= (str_at (str_repl1 s a b) k) (ite (= (str_at s k) a) b (str_at s k)))) :pattern ((str_at (str_repl1 s a b) k)))))
`},
		{syms: []string{"str_cat"}, text: `(declare-fun str_cat (Str Str) Str)
(assert (forall ((a Str) (b Str)) (! (= (str_len (str_cat a b)) (+ (str_len a) (str_len b))) :pattern ((str_cat a b)))))
(assert (forall ((a Str) (b Str) (k Int)) (! (=> (and (<= 0 k) (< k (+ (str_len a) (str_len b)))) (= (str_at (str_cat a b) k) (ite (< k (str_len a)) (str_at a k) (str_at b (- k (str_len a)))))) :pattern ((str_at (str_cat a b) k)))))
`},
		{syms: []string{"str_sub"}, text: `(declare-fun str_sub (Str Int Int) Str)
(assert (forall ((a Str) (l Int) (h Int)) (! (=> (<= l h) (= (str_len (str_sub a l h)) (- h l))) :pattern ((str_sub a l h)))))
(assert (forall ((a Str) (l Int) (h Int) (k Int)) (! (=> (and (<= 0 k) (< k (- h l))) (= (str_at (str_sub a l h) k) (str_at a (+ l k)))) :pattern ((str_at (str_sub a l h) k)))))
`},
		{syms: []string{"str_itoa", "str_atoi"}, text: `(declare-fun str_itoa (Int) Str)
(declare-fun str_atoi (Str) Int)
(assert (forall ((n Int)) (! (= (str_atoi (str_itoa n)) n) :pattern ((str_itoa n)))))
`},
		{syms: []string{"str_chr"}, text: `(declare-fun str_chr (Int) Str)
(assert (forall ((c Int)) (! (=> (and (<= 0 c) (< c 128)) (and (= (str_len (str_chr c)) 1) (= (str_at (str_chr c) 0) c))) :pattern ((str_chr c)))))
`},
	}
}

// strAxioms are included whenever strings occur. The last axiom is extensionality
// for strings of at most three bytes (a Go string is determined by its length and
// bytes), stated through constructors so that it instantiates once per string term.
const strAxioms = `(assert (forall ((s Str)) (! (>= (str_len s) 0) :pattern ((str_len s)))))
(assert (forall ((s Str) (k Int)) (! (and (<= 0 (str_at s k)) (<= (str_at s k) 255)) :pattern ((str_at s k)))))
(declare-const str_mk0 Str)
(declare-fun str_mk1 (Int) Str)
(declare-fun str_mk2 (Int Int) Str)
(declare-fun str_mk3 (Int Int Int) Str)
(assert (forall ((s Str)) (! (and (=> (= (str_len s) 0) (= s str_mk0)) (=> (= (str_len s) 1) (= s (str_mk1 (str_at s 0)))) (=> (= (str_len s) 2) (= s (str_mk2 (str_at s 0) (str_at s 1)))) (=> (= (str_len s) 3) (= s (str_mk3 (str_at s 0) (str_at s 1) (str_at s 2))))) :pattern ((str_len s)))))
`

func (p *Program) extraDecls(used map[string]bool, allOps map[string]bool) string {
	var sb strings.Builder
	if allOps["str_len"] || allOps["str_at"] {
		sb.WriteString(strAxioms)
	}

	for _, part := range preludeParts {
		for _, s := range part.syms {
			if allOps[s] {
				sb.WriteString(part.text)
				break
			}
		}
	}
	// element-read functions
	var ats []string
	for op := range allOps {
		if strings.HasPrefix(op, "at.") {
			ats = append(ats, op)
		}
	}
	sort.Strings(ats)
	for _, op := range ats {
		el := op[3:]
		fmt.Fprintf(&sb, "(declare-fun %s ((Array Int %s) Int Int) %s)\n", op, el, el)
		fmt.Fprintf(&sb, "(assert (forall ((A (Array Int %s)) (o Int) (i Int)) (! (= (%s A o i) (select A (+ o i))) :pattern ((%s A o i)))))\n", el, op, op)
		// read-over-write at the level of slice views: keeps element reads of the updated row connected to reads of the old row
		fmt.Fprintf(&sb, "(assert (forall ((A (Array Int %s)) (j Int) (v %s) (o Int) (i Int)) (! (= (%s (store A j v) o i) (ite (= (+ o i) j) v (%s A o i))) :pattern ((%s (store A j v) o i)))))\n", el, el, op, op, op)
	}
	// built-in slice sums: declaration and the store-update law
	//   fsum(A[j:=v],o,n) = fsum(A,o,n) + (o <= j < o+n ? val(v) - val(A[j]) : 0)
	// (a theorem about finite sums; the defining recursion is instantiated at ground terms by fsumUnfold)
	var fsums []string
	for op := range allOps {
		if strings.HasPrefix(op, "fsum.") {
			fsums = append(fsums, op)
		}
	}
	sort.Strings(fsums)
	for _, op := range fsums {
		el := op[5:]
		val := func(x string) string {
			if el == "XReal" {
				return "(fv " + x + ")"
			}
			return x
		}
		fmt.Fprintf(&sb, "(declare-fun %s ((Array Int %s) Int Int) Real)\n", op, el)
		fmt.Fprintf(&sb, "(assert (forall ((A (Array Int %s)) (j Int) (v %s) (o Int) (n Int)) (! (= (%s (store A j v) o n) (ite (and (<= o j) (< j (+ o n))) (+ (%s A o n) (- %s %s)) (%s A o n))) :pattern ((%s (store A j v) o n)))))\n",
			el, el, op, op, val("v"), val("(select A j)"), op, op)
	}
	// built-in map sums: msum(D, V) = sum of V[k] over the keys k with D[k]; empty domain and one-key update laws
	var msums []string
	for op := range allOps {
		if strings.HasPrefix(op, "msum.") {
			msums = append(msums, op)
		}
	}
	sort.Strings(msums)
	for _, op := range msums {
		ks := op[5:]
		fmt.Fprintf(&sb, "(declare-fun %s ((Array %s Bool) (Array %s Int)) Int)\n", op, ks, ks)
		fmt.Fprintf(&sb, "(assert (forall ((V (Array %s Int))) (! (= (%s ((as const (Array %s Bool)) false) V) 0) :pattern ((%s ((as const (Array %s Bool)) false) V)))))\n", ks, op, ks, op, ks)
		fmt.Fprintf(&sb, "(assert (forall ((D (Array %s Bool)) (V (Array %s Int)) (k %s) (v Int)) (! (= (%s (store D k true) (store V k v)) (+ (%s D V) (- v (ite (select D k) (select V k) 0)))) :pattern ((%s (store D k true) (store V k v))))))\n", ks, ks, ks, op, op, op)
	}
	// pure function symbols in declaration order
	for _, name := range TB.funOrd {
		if !allOps[name] {
			continue
		}
		fd := TB.funs[name]
		if fd.Def != "" {
			sb.WriteString(fd.Def)
			continue
		}
		var as []string
		for _, a := range fd.Args {
			as = append(as, a.Name)
		}
		fmt.Fprintf(&sb, "(declare-fun %s (%s) %s)\n", fd.Name, strings.Join(as, " "), fd.Ret.Name)
	}
	return sb.String()
}

// mathAxioms: ground instances of facts about ln/exp/pow for the applications occurring in ts
func mathAxioms(ts []*Term) []*Term { return mathAxiomsOpt(ts, true) }

func mathAxiomsOpt(ts []*Term, pairwise bool) []*Term {
	var lns, exps, pows, sqrts []*Term
	seen := map[*Term]bool{}
	for _, t := range ts {
		collect(t, seen, func(x *Term) {
			if !x.closed() {
				return
			}
			switch x.Op {
			case "m_ln":
				lns = append(lns, x)
			case "m_exp":
				exps = append(exps, x)
			case "m_pow":
				pows = append(pows, x)
			case "m_sqrt":
				sqrts = append(sqrts, x)
			}
		})
	}
	var out []*Term
	zero, one := RealLitStr("0"), RealLitStr("1")
	for _, l := range lns {
		x := l.Args[0]
		out = append(out,
			Implies(Eq(x, one), Eq(l, zero)),
			Implies(Gt(x, one), Gt(l, zero)),
			Implies(And(Gt(x, zero), Lt(x, one)), Lt(l, zero)),
			Implies(Gt(x, zero), Le(l, Sub(x, one))))
	}
	if len(lns) > 4 || len(exps) > 4 {
		pairwise = false
	}
	for i, a := range lns {
		if !pairwise {
			break
		}
		for _, b := range lns[i+1:] {
			x, y := a.Args[0], b.Args[0]
			out = append(out, Implies(And(Gt(x, zero), Gt(y, zero)), And(Eq(Lt(x, y), Lt(a, b)), Eq(Eq(x, y), Eq(a, b)))))
		}
	}
	for _, e := range exps {
		x := e.Args[0]
		out = append(out, Gt(e, zero), Ge(e, Add(one, x)), Implies(Eq(x, zero), Eq(e, one)),
			Eq(Gt(x, zero), Gt(e, one)))
	}
	for i, a := range exps {
		if !pairwise {
			break
		}
		for _, b := range exps[i+1:] {
			x, y := a.Args[0], b.Args[0]
			out = append(out, And(Eq(Lt(x, y), Lt(a, b)), Eq(Eq(x, y), Eq(a, b))))
		}
	}
	for _, pw := range pows {
		x, y := pw.Args[0], pw.Args[1]
		out = append(out,
			Implies(Gt(x, zero), Gt(pw, zero)),
			Implies(Eq(x, one), Eq(pw, one)),
			Implies(And(Gt(x, zero), Eq(y, zero)), Eq(pw, one)),
			// x in (0,1), y < 0  => x^y > 1 ; x>1, y<0 => x^y < 1
			Implies(And(Gt(x, zero), Lt(x, one), Lt(y, zero)), Gt(pw, one)),
			Implies(And(Gt(x, one), Lt(y, zero)), Lt(pw, one)),
			Implies(And(Gt(x, zero), Lt(x, one), Gt(y, zero)), Lt(pw, one)),
			Implies(And(Gt(x, one), Gt(y, zero)), Gt(pw, one)))
	}
	for _, s := range sqrts {
		x := s.Args[0]
		out = append(out, Implies(Ge(x, zero), And(Ge(s, zero), Eq(Mul(s, s), x))))
	}
	return out
}

type Query struct {
	Text string
}

func (p *Program) buildQuery(o *Obligation, unfoldDepth int) string {
	return p.buildQueryOpt(o, unfoldDepth, false)
}

// rewriteIte simplifies ite terms whose condition (or its negation) is among the asserted facts.
func rewriteIte(t *Term, facts map[*Term]bool, cache map[*Term]*Term) *Term {
	if len(t.Args) == 0 {
		return t
	}
	if r, ok := cache[t]; ok {
		return r
	}
	var r *Term
	if t.Op == "ite" {
		c := rewriteIte(t.Args[0], facts, cache)
		switch {
		case facts[c]:
			r = rewriteIte(t.Args[1], facts, cache)
		case facts[Not(c)]:
			r = rewriteIte(t.Args[2], facts, cache)
		}
	}
	if r == nil {
		changed := false
		args := make([]*Term, len(t.Args))
		for i, a := range t.Args {
			args[i] = rewriteIte(a, facts, cache)
			if args[i] != a {
				changed = true
			}
		}
		if changed {
			r = rebuild(t, args, t.Pats)
		} else {
			r = t
		}
	}
	cache[t] = r
	return r
}

// splitConj flattens conjunctions and negated implications / disjunctions
func splitConj(t *Term, out *[]*Term) {
	switch {
	case t == True:
	case t.Op == "and":
		for _, a := range t.Args {
			splitConj(a, out)
		}
	case t.Op == "not" && t.Args[0].Op == "=>":
		splitConj(t.Args[0].Args[0], out)
		splitConj(Not(t.Args[0].Args[1]), out)
	case t.Op == "not" && t.Args[0].Op == "or":
		for _, a := range t.Args[0].Args {
			splitConj(Not(a), out)
		}
	default:
		*out = append(*out, t)
	}
}

// presimplify: equivalence-preserving rewriting of the assertion set before it
// goes to the solvers. (1) x asserted finite is replaced by Fin(fv x), which
// collapses extended-real operations on it to real arithmetic; (2) fv(v) = t
// for an opaque v is used left to right; (3) ite conditions decided by an
// asserted literal are resolved.
func presimplify(asserts []*Term) []*Term {
	for round := 0; round < 6; round++ {
		var conj []*Term
		for _, a := range asserts {
			splitConj(a, &conj)
		}
		facts := map[*Term]bool{}
		m := map[*Term]*Term{}
		for _, c := range conj {
			facts[c] = true
		}
		for _, c := range conj {
			if c.Op == "(_ is Fin)" && c.closed() {
				x := c.Args[0]
				if x.Op != "Fin" && x.Op != "ite" {
					m[x] = XFin(mk("fv", SReal, x))
				}
			}
		}
		for _, c := range conj {
			if c.Op == "=" && c.closed() && c.Args[0].Sort == SReal {
				for k := 0; k < 2; k++ {
					a, b := c.Args[k], c.Args[1-k]
					if a.Op == "fv" && a.Args[0].Op == "var" && b.Op != "fv" {
						if _, dup := m[a]; !dup {
							m[a] = b
						}
						break
					}
				}
			}
		}
		changed := false
		var next []*Term
		cacheS := map[*Term]*Term{}
		cacheI := map[*Term]*Term{}
		for _, c := range conj {
			n := c
			if len(m) > 0 {
				n = subst(n, m, cacheS)
			}
			// do not let a literal simplify itself away
			f2 := facts
			if facts[c] {
				delete(facts, c)
				n = rewriteIte(n, facts, map[*Term]*Term{})
				facts[c] = true
			} else {
				n = rewriteIte(n, f2, cacheI)
			}
			if n != c {
				changed = true
				// keep the defining facts
				if c.Op == "(_ is Fin)" || (c.Op == "=" && c.Args[0].Sort == SReal && n == True) {
					next = append(next, c)
				}
			}
			if n != True {
				next = append(next, n)
			}
		}
		asserts = next
		if !changed {
			break
		}
	}
	return asserts
}

// negSkolem returns assertions equivalent (for satisfiability) to the negation
// of goal, with the goal's leading universal quantifiers replaced by fresh
// constants. Applications of recursive spec functions in the goal thereby
// become ground and are unfolded by the generator.
func negSkolem(goal *Term) []*Term {
	switch goal.Op {
	case "=>":
		return append(flattenAnd(goal.Args[0]), negSkolem(goal.Args[1])...)
	case "forall":
		m := map[*Term]*Term{}
		for _, b := range goal.Bound {
			m[b] = Fresh("sk."+strings.SplitN(b.Name, "?", 2)[0], b.Sort)
		}
		return negSkolem(Subst(goal.Args[0], m))
	}
	return []*Term{Not(goal)}
}

// hasQuant reports whether t contains a quantifier
func hasQuant(t *Term, memo map[*Term]bool) bool {
	if v, ok := memo[t]; ok {
		return v
	}
	r := t.Op == "forall" || t.Op == "exists"
	if !r {
		for _, a := range t.Args {
			if hasQuant(a, memo) {
				r = true
				break
			}
		}
	}
	memo[t] = r
	return r
}

// hasNonlinear reports whether t contains a product of two non-literal factors
func hasNonlinear(t *Term, memo map[*Term]bool) bool {
	if r, ok := memo[t]; ok {
		return r
	}
	r := false
	if t.Op == "*" && len(t.Args) == 2 {
		lit := func(x *Term) bool { return x.Op == "int" || x.Op == "real" }
		if !lit(t.Args[0]) && !lit(t.Args[1]) {
			r = true
		}
	}
	if !r {
		for _, a := range t.Args {
			if hasNonlinear(a, memo) {
				r = true
				break
			}
		}
	}
	memo[t] = r
	return r
}

// heapSyms: the array-sorted constants and spec-function symbols of a term
func heapSyms(t *Term, memo map[*Term]map[string]bool) map[string]bool {
	if m, ok := memo[t]; ok {
		return m
	}
	m := map[string]bool{}
	seen := map[*Term]bool{}
	collect(t, seen, func(x *Term) {
		if x.Op == "var" && strings.HasPrefix(x.Sort.Name, "(Array") {
			m[x.Name] = true
		} else if _, ok := TB.funs[x.Op]; ok {
			m[x.Op] = true
		}
	})
	memo[t] = m
	return m
}

// relevantHyps keeps every ground hypothesis and those quantified hypotheses
// that (transitively, through other kept quantified hypotheses) share a heap
// array or spec-function symbol with the goal. Dropping hypotheses is sound;
// the full query is tried when the reduced one is not decided.
func relevantHyps(hyps []*Term, goal *Term) []*Term {
	qm := map[*Term]bool{}
	sm := map[*Term]map[string]bool{}
	rel := map[string]bool{}
	for k := range heapSyms(goal, sm) {
		rel[k] = true
	}
	keep := make([]bool, len(hyps))
	dropped := make([]bool, len(hyps))
	nlm := map[*Term]bool{}
	goalNL := hasNonlinear(goal, nlm)
	for i, h := range hyps {
		if !hasQuant(h, qm) {
			// a ground hypothesis with a product of two non-literals (e.g. the definition of
			// int(frac*float64(n))) is dropped when the goal has none: it pushes the solvers into
			// nonlinear arithmetic for goals about heap arrays. Dropping hypotheses is sound.
			keep[i] = goalNL || !hasNonlinear(h, nlm)
			dropped[i] = !keep[i]
		}
	}
	// ground equalities between array constants link heap versions
	for changed := true; changed; {
		changed = false
		for i, h := range hyps {
			syms := heapSyms(h, sm)
			if (keep[i] && hasQuant(h, qm)) || dropped[i] {
				continue
			}
			inter := false
			for k := range syms {
				if rel[k] {
					inter = true
					break
				}
			}
			if !inter {
				continue
			}
			if keep[i] {
				// ground hypothesis touching a relevant array: only array-to-array links matter
				if h.Op == "=" && len(h.Args) == 2 && strings.HasPrefix(h.Args[0].Sort.Name, "(Array") {
					for k := range syms {
						if !rel[k] {
							rel[k] = true
							changed = true
						}
					}
				}
				continue
			}
			keep[i] = true
			changed = true
			for k := range syms {
				rel[k] = true
			}
		}
	}
	var out []*Term
	for i, h := range hyps {
		if keep[i] {
			out = append(out, h)
		}
	}
	return out
}

func (p *Program) buildQueryOpt(o *Obligation, unfoldDepth int, filter bool) string {
	var asserts []*Term
	asserts = append(asserts, o.Hyps...)
	asserts = append(asserts, flattenAnd(o.PC)...)
	// global axioms (from `axiom` clauses): only those that talk about a spec function occurring in this
	// obligation (an axiom about symbols the query does not mention cannot help, and its quantifier only
	// disturbs the instantiation heuristics of the solvers)
	{
		ops := map[string]bool{}
		seenT := map[*Term]bool{}
		for _, a := range asserts {
			collect(a, seenT, func(t *Term) { ops[t.Op] = true })
		}
		collect(o.Goal, seenT, func(t *Term) { ops[t.Op] = true })
		// close under the definitions of the recursive/opaque spec functions (their bodies are unfolded later)
		closeOps := func() {
			for grew := true; grew; {
				grew = false
				for _, info := range p.pureDecl {
					if info == nil || info.body == nil || !ops[info.symbol] || ops["$body:"+info.symbol] {
						continue
					}
					ops["$body:"+info.symbol] = true
					collect(info.body, map[*Term]bool{}, func(t *Term) {
						if !ops[t.Op] {
							ops[t.Op] = true
							grew = true
						}
					})
				}
			}
		}
		closeOps()
		pending := append([]*Term{}, p.globalAxioms()...)
		for changed := true; changed; {
			changed = false
			var rest []*Term
			for _, ax := range pending {
				rel := false
				axOps := map[string]bool{}
				collect(ax, map[*Term]bool{}, func(t *Term) {
					if strings.HasPrefix(t.Op, "pf.") {
						axOps[t.Op] = true
						if ops[t.Op] {
							rel = true
						}
					}
				})
				if rel || len(axOps) == 0 {
					asserts = append(asserts, ax)
					for k := range axOps {
						if !ops[k] {
							ops[k] = true
							changed = true
						}
					}
					closeOps()
				} else {
					rest = append(rest, ax)
				}
			}
			pending = rest
		}
	}
	if filter {
		asserts = relevantHyps(asserts, o.Goal)
	}
	if o.ExpectSat {
		asserts = append(asserts, o.Goal)
	} else {
		asserts = append(asserts, negSkolem(o.Goal)...)
	}
	if allXReal(asserts) {
		asserts = presimplify(asserts)
	}
	// type invariants of the heap arrays that occur
	{
		seenV := map[*Term]bool{}
		var hv []*Term
		for _, a := range asserts {
			collect(a, seenV, func(t *Term) {
				if t.Op == "var" {
					if _, ok := p.heapVars[t]; ok {
						hv = append(hv, t)
					}
				}
			})
		}
		sort.SliceStable(hv, func(i, j int) bool {
			a, b := canonName(hv[i].Name), canonName(hv[j].Name)
			if a != b {
				return a < b
			}
			return hv[i].id < hv[j].id
		})
		for _, v := range hv {
			info := p.heapVars[v]
			if inv := p.heapInv(info.name, v, info.alloc); inv != True {
				asserts = append(asserts, inv)
			}
		}
		if o.NoUnfold {
			unfoldDepth = 0
		}
		defs := p.unfoldDefs(asserts, unfoldDepth)
		asserts = append(asserts, defs...)
		// tables reached as objects (rows of nested tables, map tables through a variable); computed after the
		// unfolding of the recursive spec functions, whose bodies may be the only place where a table row occurs
		// (a lemma over a [][]T table)
		if used := p.tablesReferenced(asserts); len(used) > 0 {
			for _, v := range hv {
				if tf := p.tableHeapFacts(used, p.heapVars[v].name, v); tf != True {
					asserts = append(asserts, tf)
				}
			}
			asserts = append(asserts, p.tableRefFacts(asserts)...)
		}
	}
	{
		d := unfoldDepth
		if d < 2 && !o.NoUnfold {
			d = 2
		}
		asserts = append(asserts, fsumUnfold(asserts, d)...)
	}
	asserts = append(asserts, mathAxioms(asserts)...)
	allOps := map[string]bool{}
	seen := map[*Term]bool{}
	for _, a := range asserts {
		collect(a, seen, func(t *Term) { allOps[t.Op] = true })
	}
	for _, a := range asserts {
		collect(a, map[*Term]bool{}, func(t *Term) {
			if strings.Contains(t.Sort.Name, "XReal") {
				allOps["$xreal"] = true
			}
		})
		if allOps["$xreal"] {
			break
		}
	}
	for round := 0; round < 3; round++ {
		// opaque spec functions may mention further opaque functions
		n := 0
		for _, ax := range p.opaqueAxioms(allOps) {
			if !hasTerm(asserts, ax) {
				asserts = append(asserts, ax)
				collect(ax, seen, func(t *Term) { allOps[t.Op] = true })
				n++
			}
		}
		if n == 0 {
			break
		}
	}
	prelude := basePrelude
	if allOps["$xreal"] {
		prelude += xrealPrelude
	}
	if abstractProducts {
		cache := map[*Term]*Term{}
		n := 0
		for i, a := range asserts {
			asserts[i] = abstractMul(a, cache, &n)
		}
		if n == 0 {
			return ""
		}
		prelude += umulPrelude
	}
	txt := Script(asserts, prelude, func(used map[string]bool) string { return p.extraDecls(used, allOps) })
	return txt + "(check-sat)\n"
}

// ---- uninterpreted-product abstraction ----
//
// Every product of two non-literal factors is replaced by an application of an
// uninterpreted function (umul.Real / umul.Int). The abstraction only forgets
// facts about multiplication (congruence is all that is left), so an `unsat`
// answer for the abstract query is sound for the original one; any other answer
// is ignored. It keeps the solvers' nonlinear arithmetic out of obligations that
// merely carry a product such as cutoff*total from the code to the spec.

// abstractProducts is consulted by buildQueryOpt (queries are built sequentially)
var abstractProducts bool

const umulPrelude = "(declare-fun umul.Real (Real Real) Real)\n(declare-fun umul.Int (Int Int) Int)\n"

func abstractMul(t *Term, cache map[*Term]*Term, n *int) *Term {
	if len(t.Args) == 0 {
		return t
	}
	if r, ok := cache[t]; ok {
		return r
	}
	changed := false
	args := make([]*Term, len(t.Args))
	for i, a := range t.Args {
		args[i] = abstractMul(a, cache, n)
		if args[i] != a {
			changed = true
		}
	}
	var pats [][]*Term
	for _, pp := range t.Pats {
		var q []*Term
		for _, x := range pp {
			y := abstractMul(x, cache, n)
			if y != x {
				changed = true
			}
			q = append(q, y)
		}
		pats = append(pats, q)
	}
	isLit := func(x *Term) bool { return x.Op == "int" || x.Op == "real" }
	var r *Term
	switch {
	case t.Op == "*" && len(args) == 2 && !isLit(args[0]) && !isLit(args[1]) && (t.Sort == SReal || t.Sort == SInt):
		*n++
		op := "umul.Real"
		if t.Sort == SInt {
			op = "umul.Int"
		}
		r = mk(op, t.Sort, args[0], args[1])
	case !changed:
		r = t
	default:
		r = rebuild(t, args, pats)
	}
	cache[t] = r
	return r
}

var axiomCache []*Term
var axiomCacheDone bool

func (p *Program) globalAxioms() []*Term {
	if axiomCacheDone {
		return axiomCache
	}
	axiomCacheDone = true
	for _, ax := range p.axioms {
		st := &State{pc: True, heap: map[string]*Term{}, ghost: map[string]*Term{}, alloc: Var("$ax.alloc", SInt)}
		env := &Env{p: p, vars: map[string]SVal{}, cur: st}
		if pk, ok := p.pkgs[ax.Pkg]; ok {
			env.pkg = pk.Types
		}
		t, err := env.ElabBool(ax.Expr)
		if err != nil {
			p.bindErrs = append(p.bindErrs, fmt.Sprintf("axiom %s: %v", ax.Name, err))
			continue
		}
		axiomCache = append(axiomCache, t)
	}
	return axiomCache
}

// ---- running solvers ----

type solverSpec struct {
	name string
	argv func(file string, timeoutS int) []string
}

var solvers = map[string]solverSpec{
	"z3": {"z3-4.8.12", func(f string, t int) []string {
		return []string{"/usr/bin/z3", "-smt2", fmt.Sprintf("-T:%d", t), f}
	}},
	"z3new": {"z3-5.1.0", func(f string, t int) []string {
		return []string{"z3-new", "-smt2", fmt.Sprintf("-T:%d", t), f}
	}},
	// same binary, E-matching only (no model-based instantiation, no automatic
	// tactic selection): much faster on VCs with many pattern-guarded heap axioms
	"z3e": {"z3-5.1.0-ematch", func(f string, t int) []string {
		return []string{"z3-new", "-smt2", fmt.Sprintf("-T:%d", t), "smt.mbqi=false", "smt.auto_config=false", f}
	}},
	// e-matching with other random seeds: quantifier-heavy VCs that one instantiation order misses are
	// usually found at once by another (portfolio against unstable proofs)
	"z3e1": {"z3-5.1.0-ematch", func(f string, t int) []string {
		return []string{"z3-new", "-smt2", fmt.Sprintf("-T:%d", t), "smt.mbqi=false", "smt.auto_config=false", "smt.random_seed=2", f}
	}},
	"z3e2": {"z3-5.1.0-ematch", func(f string, t int) []string {
		return []string{"z3-new", "-smt2", fmt.Sprintf("-T:%d", t), "smt.mbqi=false", "smt.auto_config=false", "smt.random_seed=4", f}
	}},
	"cvc5": {"cvc5-1.0.3", func(f string, t int) []string {
		return []string{"cvc5", "--lang=smt2", fmt.Sprintf("--tlimit=%d", t*1000), f}
	}},
}

type solveResult struct {
	verdict string // unsat / sat / unknown / timeout / error
	solver  string
	secs    float64
	out     string
}

var procSem = make(chan struct{}, 40)

// buildMu serialises query construction (the term bank is not safe for concurrent use)
var buildMu sync.Mutex

// buildSecs: time spent constructing the main queries (sequential)
var buildSecs float64

func runSolver(ctx context.Context, key, file string, timeoutS int) solveResult {
	sp := solvers[key]
	argv := sp.argv(file, timeoutS)
	procSem <- struct{}{}
	defer func() { <-procSem }()
	start := time.Now()
	cctx, cancel := context.WithTimeout(ctx, time.Duration(timeoutS+2)*time.Second)
	defer cancel()
	cmd := exec.CommandContext(cctx, argv[0], argv[1:]...)
	var out bytes.Buffer
	cmd.Stdout = &out
	cmd.Stderr = &out
	_ = cmd.Run()
	secs := time.Since(start).Seconds()
	text := out.String()
	first := strings.TrimSpace(strings.SplitN(text, "\n", 2)[0])
	v := "unknown"
	switch {
	case first == "unsat":
		v = "unsat"
	case first == "sat":
		v = "sat"
	case first == "unknown":
		v = "unknown"
	case strings.Contains(first, "timeout") || cctx.Err() != nil:
		v = "timeout"
	case strings.Contains(text, "error") || strings.Contains(text, "Error"):
		v = "error"
	}
	if len(text) > 2000 {
		text = text[:2000]
	}
	return solveResult{verdict: v, solver: sp.name, secs: secs, out: text}
}

type SolveConfig struct {
	workdir   string
	t0        int // reduced-hypothesis attempt
	t1, t2    int
	allAgree  bool // thorough: run all solvers and compare
	keepFiles bool
	noRetry   map[string]bool                  // obligations of recorded known findings: a second attempt would only cost time
	variants  func(o *Obligation, file string) // builds the .nra/.rel/.umul variants of the query on demand
}

var tally = struct {
	sync.Mutex
	bySolver          map[string]int
	secs              map[string]float64
	runs              int
	cross, crossAgree int
}{bySolver: map[string]int{}, secs: map[string]float64{}}

func record(r solveResult) {
	tally.Lock()
	tally.runs++
	tally.secs[r.solver] += r.secs
	tally.Unlock()
}

// ok reports whether the obligation is discharged
func (o *Obligation) ok() bool {
	if o.ExpectSat {
		// vacuity guard: fails only on a definite unsat
		return o.Verdict != "unsat" && o.Verdict != "error" && o.Verdict != "disagree"
	}
	return o.Verdict == "unsat"
}

func dischargeAll(p *Program, obls []*Obligation, cfg *SolveConfig) {
	var wg sync.WaitGroup
	sem := make(chan struct{}, 24)
	// building queries touches the shared term bank: do it sequentially, solving in parallel
	type job struct {
		o   *Obligation
		idx int
	}
	var mu sync.Mutex
	_ = mu
	files := map[*Obligation]string{}
	tD := time.Now()
	// the cheaper variants of a query (real-arithmetic abstraction, relevant hypotheses only, uninterpreted
	// products) are built only for the obligations that the full query does not settle at once
	cfg.variants = func(o *Obligation, file string) {
		buildMu.Lock()
		defer buildMu.Unlock()
		if _, err := os.Stat(file + ".variants"); err == nil {
			return
		}
		os.WriteFile(file+".variants", nil, 0o644)
		if nq := p.buildNRAQuery(o); nq != "" {
			os.WriteFile(file+".nra", []byte("; "+o.Name+" (real-arithmetic abstraction)\n"+nq), 0o644)
		}
		if !o.ExpectSat {
			q := p.buildQuery(o, 2)
			qf := p.buildQueryOpt(o, 2, true)
			if qf != q {
				os.WriteFile(file+".rel", []byte("; "+o.Name+" (relevant hypotheses only)\n"+qf), 0o644)
			}
			abstractProducts = true
			qu := p.buildQueryOpt(o, 2, false)
			abstractProducts = false
			if qu != "" {
				os.WriteFile(file+".umul", []byte("; "+o.Name+" (products of two non-literal factors uninterpreted)\n"+qu), 0o644)
			}
		}
	}
	for i, o := range obls {
		if o.Verdict != "" {
			continue
		}
		// build query text sequentially (the term bank is shared)
		buildMu.Lock()
		tb0 := time.Now()
		q := p.buildQuery(o, 2)
		buildSecs += time.Since(tb0).Seconds()
		buildMu.Unlock()
		file := filepath.Join(cfg.workdir, fmt.Sprintf("q%05d.smt2", i))
		if err := os.WriteFile(file, []byte("; "+o.Name+"\n"+q), 0o644); err != nil {
			o.Verdict = "error"
			o.Detail = err.Error()
			continue
		}
		files[o] = file
		wg.Add(1)
		sem <- struct{}{}
		go func(o *Obligation, file string) {
			defer wg.Done()
			defer func() { <-sem }()
			t0 := time.Now()
			solveFile(o, file, cfg)
			o.Wall = time.Since(t0).Seconds()
		}(o, file)
	}
	if os.Getenv("GOVC_TIMING") != "" {
		fmt.Fprintf(os.Stderr, "timing: producer loop done after %.1fs\n", time.Since(tD).Seconds())
	}
	wg.Wait()
	if os.Getenv("GOVC_TIMING") != "" {
		fmt.Fprintf(os.Stderr, "timing: all solved after %.1fs\n", time.Since(tD).Seconds())
	}
	// second chance: an obligation that no solver decided while all cores were busy is tried again on a quiet
	// machine (a few at a time, longer limit). A definite answer (sat) is never retried.
	var retry []*Obligation
	for _, o := range obls {
		if !o.ExpectSat && (o.Verdict == "unknown" || o.Verdict == "timeout") && files[o] != "" && !cfg.noRetry[o.Name] {
			retry = append(retry, o)
		}
	}
	if os.Getenv("GOVC_TIMING") != "" {
		fmt.Fprintf(os.Stderr, "timing: %d obligations to retry\n", len(retry))
		for _, o := range retry {
			fmt.Fprintf(os.Stderr, "   retry %s %s\n", o.Verdict, o.Name)
		}
	}
	if len(retry) > 0 && len(retry) <= 24 {
		cfg2 := *cfg
		cfg2.t0, cfg2.t1, cfg2.t2 = cfg.t0*2, cfg.t1*2, cfg.t2*2
		sem2 := make(chan struct{}, 3)
		var wg2 sync.WaitGroup
		for _, o := range retry {
			first := o.Detail
			wg2.Add(1)
			sem2 <- struct{}{}
			go func(o *Obligation, first string) {
				defer wg2.Done()
				defer func() { <-sem2 }()
				solveFile(o, files[o], &cfg2)
				o.Detail = o.Detail + " | first attempt: " + first
			}(o, first)
		}
		wg2.Wait()
	}
}

// solveFile decides one obligation; in the thorough tier a proved obligation is cross-checked by a solver of
// another family on the full query (a `sat` answer there is reported as a disagreement, i.e. a failure)
func solveFile(o *Obligation, file string, cfg *SolveConfig) {
	solveFileInner(o, file, cfg)
	if !cfg.allAgree || o.ExpectSat || o.Verdict != "unsat" {
		return
	}
	checker := "cvc5"
	if strings.HasPrefix(o.Solver, "cvc5") {
		checker = "z3new"
	}
	r := runSolver(context.Background(), checker, file, cfg.t0)
	record(r)
	tally.Lock()
	tally.cross++
	if r.verdict == "unsat" {
		tally.crossAgree++
	}
	tally.Unlock()
	o.Detail += fmt.Sprintf(" | cross-check %s=%s(%.2fs)", r.solver, r.verdict, r.secs)
	if r.verdict == "sat" {
		o.Verdict = "disagree"
		o.Solver = o.Solver + "/" + r.solver
	}
}

func solveFileInner(o *Obligation, file string, cfg *SolveConfig) {
	ctx := context.Background()
	decisive := func(r solveResult) bool {
		if o.ExpectSat {
			return r.verdict == "sat" || r.verdict == "unsat"
		}
		return r.verdict == "unsat" || r.verdict == "sat"
	}
	var results []solveResult
	race := func(keys []string, t int) bool {
		ch := make(chan solveResult, len(keys))
		cctx, cancel := context.WithCancel(ctx)
		defer cancel()
		for _, k := range keys {
			go func(k string) { ch <- runSolver(cctx, k, file, t) }(k)
		}
		done := false
		for range keys {
			r := <-ch
			if done && r.verdict != "sat" && r.verdict != "unsat" {
				continue // cancelled loser
			}
			record(r)
			results = append(results, r)
			if !false /*allAgree handled by the cross-check*/ && decisive(r) {
				done = true
				cancel()
			}
		}
		for _, r := range results {
			if decisive(r) {
				return true
			}
		}
		return false
	}
	settled := false
	if !o.ExpectSat && !false /*allAgree handled by the cross-check*/ {
		// most obligations are settled by the full query within a second or two
		settled = race([]string{"z3", "z3new", "z3e", "cvc5", "z3e1"}, 6)
	}
	if !settled {
		if done := func() bool {
			if !o.ExpectSat && cfg.variants != nil {
				cfg.variants(o, file)
			}
			if !o.ExpectSat {
				if _, err := os.Stat(file + ".nra"); err == nil {
					// real-arithmetic abstraction (an unsat answer is sound; anything else is ignored)
					ch := make(chan solveResult, 3)
					cctx, cancel := context.WithCancel(ctx)
					keys := []string{"z3", "z3new", "cvc5"}
					for _, k := range keys {
						go func(k string) { ch <- runSolver(cctx, k, file+".nra", cfg.t1) }(k)
					}
					var win *solveResult
					for range keys {
						r := <-ch
						if r.verdict == "unsat" && win == nil {
							rr := r
							win = &rr
							cancel()
						}
					}
					cancel()
					if win != nil && !false /*allAgree handled by the cross-check*/ {
						record(*win)
						o.Verdict, o.Solver, o.Secs = "unsat", win.solver, win.secs
						o.Detail = fmt.Sprintf("%s=unsat(%.2fs) on the real-arithmetic abstraction %s.nra", win.solver, win.secs, file)
						tally.Lock()
						tally.bySolver[o.Solver]++
						tally.Unlock()
						return true
					}
				}
				if _, err := os.Stat(file + ".umul"); err == nil {
					// uninterpreted products (an unsat answer is sound; anything else is ignored)
					keys := []string{"z3", "z3new", "z3e"}
					ch := make(chan solveResult, len(keys))
					cctx, cancel := context.WithCancel(ctx)
					for _, k := range keys {
						go func(k string) { ch <- runSolver(cctx, k, file+".umul", cfg.t0) }(k)
					}
					var win *solveResult
					for range keys {
						r := <-ch
						if r.verdict == "unsat" && win == nil {
							rr := r
							win = &rr
							cancel()
						}
					}
					cancel()
					if win != nil && !false /*allAgree handled by the cross-check*/ {
						record(*win)
						o.Verdict, o.Solver, o.Secs = "unsat", win.solver, win.secs
						o.Detail = fmt.Sprintf("%s=unsat(%.2fs) with uninterpreted products %s.umul", win.solver, win.secs, file)
						tally.Lock()
						tally.bySolver[o.Solver]++
						tally.Unlock()
						return true
					}
				}
				if _, err := os.Stat(file + ".rel"); err == nil {
					// first attempt: reduced hypothesis set (an unsat answer is sound; anything else is ignored)
					ch := make(chan solveResult, 2)
					cctx, cancel := context.WithCancel(ctx)
					for _, k := range []string{"z3", "z3new"} {
						go func(k string) { ch <- runSolver(cctx, k, file+".rel", cfg.t0) }(k)
					}
					var win *solveResult
					for i := 0; i < 2; i++ {
						r := <-ch
						if r.verdict == "unsat" && win == nil {
							rr := r
							win = &rr
							cancel()
						}
					}
					cancel()
					if win != nil && !false /*allAgree handled by the cross-check*/ {
						record(*win)
						o.Verdict, o.Solver, o.Secs = "unsat", win.solver, win.secs
						o.Detail = fmt.Sprintf("%s=unsat(%.2fs) on the reduced hypothesis set %s.rel", win.solver, win.secs, file)
						tally.Lock()
						tally.bySolver[o.Solver]++
						tally.Unlock()
						return true
					}
				}
			}
			if o.ExpectSat {
				// vacuity guard: only a definite unsat is a failure; do not spend the long timeout on it
				race([]string{"z3", "z3new"}, 3)
			} else if !race([]string{"z3", "z3new", "z3e", "cvc5", "z3e1", "z3e2"}, cfg.t1) || false /*allAgree handled by the cross-check*/ {
				if false /*allAgree handled by the cross-check*/ {
					race([]string{"cvc5"}, cfg.t2)
				} else {
					race([]string{"cvc5", "z3", "z3new", "z3e", "z3e1", "z3e2"}, cfg.t2)
				}
			}
			if !o.ExpectSat && !false /*allAgree handled by the cross-check*/ {
				dec := false
				for _, r := range results {
					if decisive(r) {
						dec = true
					}
				}
				if _, err := os.Stat(file + ".rel"); err == nil && !dec {
					// last resort: cvc5 on the reduced hypothesis set (an unsat answer is sound; anything else is ignored)
					r := runSolver(ctx, "cvc5", file+".rel", cfg.t2)
					if r.verdict == "unsat" {
						record(r)
						o.Verdict, o.Solver, o.Secs = "unsat", r.solver, r.secs
						o.Detail = fmt.Sprintf("%s=unsat(%.2fs) on the reduced hypothesis set %s.rel", r.solver, r.secs, file)
						tally.Lock()
						tally.bySolver[o.Solver]++
						tally.Unlock()
						return true
					}
				}
			}
			return false
		}(); done {
			return
		}
	}
	var sawSat, sawUnsat *solveResult
	total := 0.0
	for i := range results {
		r := &results[i]
		total += r.secs
		if r.verdict == "sat" && sawSat == nil {
			sawSat = r
		}
		if r.verdict == "unsat" && sawUnsat == nil {
			sawUnsat = r
		}
	}
	o.Secs = total
	var ds []string
	for _, r := range results {
		ds = append(ds, fmt.Sprintf("%s=%s(%.2fs)", r.solver, r.verdict, r.secs))
	}
	sort.Strings(ds)
	o.Detail = strings.Join(ds, " ") + " " + file
	switch {
	case sawSat != nil && sawUnsat != nil:
		o.Verdict = "disagree"
		o.Solver = sawSat.solver + "/" + sawUnsat.solver
	case sawUnsat != nil:
		o.Verdict = "unsat"
		o.Solver = sawUnsat.solver
	case sawSat != nil:
		o.Verdict = "sat"
		o.Solver = sawSat.solver
	default:
		o.Verdict = "unknown"
		o.Solver = "-"
		for _, r := range results {
			if r.verdict == "error" {
				o.Verdict = "error"
				o.Detail += " | " + strings.TrimSpace(r.out)
				break
			}
		}
	}
	tally.Lock()
	tally.bySolver[o.Solver]++
	tally.Unlock()
}

func containsTerm(t, sub *Term) bool {
	found := false
	collect(t, map[*Term]bool{}, func(x *Term) {
		if x == sub {
			found = true
		}
	})
	return found
}

func allXReal(ts []*Term) bool {
	found := false
	seen := map[*Term]bool{}
	for _, t := range ts {
		collect(t, seen, func(x *Term) {
			if x.Sort == SXReal {
				found = true
			}
		})
		if found {
			return true
		}
	}
	return false
}

func flattenAnd(t *Term) []*Term {
	var out []*Term
	var rec func(t *Term)
	rec = func(t *Term) {
		if t.Op == "and" {
			for _, a := range t.Args {
				rec(a)
			}
			return
		}
		if t != True {
			out = append(out, t)
		}
	}
	rec(t)
	return out
}
