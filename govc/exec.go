package main

// Symbolic execution of SSA (NaiveForm) functions into verification
// conditions: loop cutting at invariants, calls by contract, inlining of
// loop-free helpers, no-panic obligations.

import (
	"fmt"
	"go/ast"
	"go/constant"
	"go/token"
	"go/types"
	"math/big"
	"sort"
	"strings"

	"golang.org/x/tools/go/ssa"
)

type Obligation struct {
	Name      string
	Kind      string
	Func      string
	Props     []string
	Hyps      []*Term
	PC        *Term
	Goal      *Term
	Pos       string
	Desc      string
	Alloc     *Term // allocation counter at the point of the obligation
	NoUnfold  bool  // recursive spec functions stay opaque (loop-free function: no induction step to support)
	ExpectSat bool  // vacuity / cover: the query (PC && Goal) must be satisfiable
	// results
	Verdict string
	Solver  string
	Secs    float64
	Wall    float64 // wall-clock time of all attempts on this obligation
	Detail  string
	Model   string
	fc      *FuncCtx // the function context that generated it (replay)
}

type FuncCtx struct {
	parentLocals     map[string]SVal // closure verified on its own: locals of the enclosing function it does not capture (constants)
	p                *Program
	top              *ssa.Function
	contract         *Contract
	obls             []*Obligation
	axioms           []*Term
	notes            map[string]bool
	counters         map[string]int
	entry            *State
	entryVars        map[string]SVal
	frameLocs        []ModLoc
	stack            []*ssa.Function
	wrap             bool
	inlined          map[string]bool
	inlinedWithLoops map[string]bool
	inlineCount      map[string]int // number of inlinings of a callee named by a "loop <n> in <callee>" clause
	inlLoopsSeen     map[string]bool
	callCount        map[string]int
	assertSeen       map[string]bool
	curTags          []string
	entryArgs        []Val                     // entry values of the parameters (replay)
	iterStable0      *Term                     // function literal under an iterator protocol: the iterator's <stable> at entry
	iterPre          map[*ssa.CallCommon]*Term // iterator calls: <stable> before the call
}

type ModLoc struct {
	Heap string
	At   *Term // nil: whole array
	Lo   *Term // element heaps: only cells [Lo, Hi) of row At (nil: the whole row)
	Hi   *Term
}

type loopInfo struct {
	header  *ssa.BasicBlock
	blocks  map[*ssa.BasicBlock]bool
	ordinal int
	stmt    ast.Stmt
	head    *State // state right after havoc+assume (for variants)
	entry   *State
	variant *Term
	lc      *LoopContract
	rangeIx *ssa.Alloc
	rangeLn ssa.Value
	fromTop bool // clauses given by the contract of the function under verification for a loop of an inlined callee
}

type Frame struct {
	fc       *FuncCtx
	fn       *ssa.Function
	regs     map[ssa.Value]Val
	prefix   string
	isTop    bool
	loops    map[*ssa.BasicBlock]*loopInfo
	contract *Contract
	entrySt  *State
	params   map[string]SVal // entry values of params by name
	depth    int
	defers   []*ssa.Defer
	goBodies []*ssa.Function
	onReturn func(st *State, vals []Val)
	spawned  []*ssa.MakeClosure // goroutines started by this frame (function literals)
	// inlined frames: the calling frame, and the loop clauses the contract of the function under
	// verification gives for this inlining ("loop <n> in <callee>")
	parent   *Frame
	inlLoops map[int]*LoopContract
}

type retPoint struct {
	st   *State
	vals []Val
}

func (fc *FuncCtx) note(s string) { fc.notes[s] = true }

func (fc *FuncCtx) oblName(fr *Frame, kind, text string) string {
	base := fr.prefix + "#" + kind + ":" + text
	fc.counters[base]++
	return fmt.Sprintf("%s#%d", base, fc.counters[base])
}

func (fc *FuncCtx) addObl(fr *Frame, st *State, kind, text string, goal *Term, pos token.Pos, desc string) {
	if st.dead || st.pc == False {
		return
	}
	name := fc.oblName(fr, kind, text)
	if goal == True {
		// trivially discharged by the generator's own simplifier: still counted
		fc.obls = append(fc.obls, &Obligation{Name: name, Kind: kind, Func: fr.prefix, PC: st.pc, Goal: goal, Pos: fc.p.pos(pos), Desc: desc, Verdict: "unsat", Solver: "simplifier", Props: fc.propsFor(), Alloc: st.alloc})
		return
	}
	fc.obls = append(fc.obls, &Obligation{Name: name, Kind: kind, Func: fr.prefix, Hyps: fc.axioms, PC: st.pc, Goal: goal, Pos: fc.p.pos(pos), Desc: desc, Props: fc.propsFor(), Alloc: st.alloc})
}

// addSplit adds one obligation per top-level conjunct of goal (after expansion
// of spec functions), so that a failure names the conjunct that fails.
func (fc *FuncCtx) addSplit(fr *Frame, st *State, kind, text string, goal *Term, pos token.Pos, desc string) {
	if goal.Op != "and" || len(goal.Args) < 2 {
		fc.addObl(fr, st, kind, text, goal, pos, desc)
		return
	}
	n := len(goal.Args)
	for i, g := range goal.Args {
		fc.addObl(fr, st, kind, fmt.Sprintf("%s [%d/%d]", text, i+1, n), g, pos, desc+" (conjunct "+shortTerm(g)+")")
	}
}

func shortTerm(t *Term) string {
	s := t.String()
	if len(s) > 200 {
		s = s[:200] + "..."
	}
	return s
}

func (fc *FuncCtx) propsFor() []string {
	if len(fc.curTags) > 0 {
		return fc.curTags
	}
	if fc.contract != nil {
		return fc.contract.Props
	}
	return nil
}

// ---- entry point: verify one function against its contract ----

func VerifyFunction(p *Program, fn *ssa.Function, c *Contract) (fc *FuncCtx, err error) {
	fc = &FuncCtx{p: p, top: fn, contract: c, notes: map[string]bool{}, counters: map[string]int{}, inlined: map[string]bool{}, callCount: map[string]int{}, assertSeen: map[string]bool{}}
	fc.wrap = c.Arith == "wrap64"
	savedFloat := floatSort
	if c.Float == "xreal" {
		floatSort = SXReal
	} else {
		floatSort = SReal
	}
	defer func() { floatSort = savedFloat }()
	defer func() {
		if r := recover(); r != nil {
			switch e := r.(type) {
			case unsupported:
				err = fmt.Errorf("unsupported: %s", e.msg)
			case elabErr:
				err = fmt.Errorf("spec error: %s", e.msg)
			default:
				// a construct the generator does not handle: the function is reported as undecidable
				// (a failed `#generate` obligation) instead of aborting the whole check
				err = fmt.Errorf("generator failure: %v", r)
			}
		}
	}()
	st := &State{pc: True, cells: map[*ssa.Alloc]Val{}, heap: map[string]*Term{}, ghost: map[string]*Term{}, alloc: Var("alloc@0", SInt)}
	st.assume(Le(IntLit(0), st.alloc))
	fr := fc.newFrame(fn, funcKey(fn), true)
	fr.contract = c
	// parameters
	var args []Val
	for _, prm := range fn.Params {
		v := fc.freshVal("in."+prm.Name(), prm.Type(), st)
		args = append(args, v)
	}
	var fvs []Val
	for _, fv := range fn.FreeVars {
		// free variables of closures verified on their own: pointer to a cell of the enclosing function
		pt, ok := fv.Type().Underlying().(*types.Pointer)
		if !ok {
			unsupp("free variable %s of non-pointer type", fv.Name())
		}
		if s := sortOf(pt.Elem()); s != nil {
			// model as a one-element heap cell
			h := "FV:" + funcKey(fn) + "." + fv.Name()
			p.registerHeap(h, ArraySort(SInt, s))
			fvs = append(fvs, Val{LV: &LVal{Kind: lvField, Ref: IntLit(1), Heap: h, Typ: pt.Elem()}})
		} else if _, isStruct := pt.Elem().Underlying().(*types.Struct); isStruct {
			v := fc.freshVal("fv."+fv.Name(), fv.Type(), st)
			if v.T != nil {
				st.assume(Neq(v.T, IntLit(0))) // the address of a captured variable is never nil
			}
			fvs = append(fvs, v)
		} else {
			unsupp("free variable %s of type %s", fv.Name(), fv.Type())
		}
	}
	fc.bindParentLocals(fn, c, st)
	fc.entry = st.clone()
	fc.entryArgs = args
	fr.entrySt = fc.entry
	fc.bindParams(fr, fn, args, fvs, st)
	fc.entryVars = fr.params
	if c.IteratedBy != "" {
		fc.assumeIterProtocol(fr, st, fn, c, args)
	}
	// requires (a closure verified on its own may constrain its captured variables by name;
	// at entry no other local exists)
	env := fc.envFor(fr, st, nil, false)
	for _, rq := range c.Requires {
		t, e := env.ElabBool(rq.Expr)
		if e != nil {
			return fc, fmt.Errorf("%s:%d: requires: %v", c.File, rq.Line, e)
		}
		st.assume(t)
	}
	fc.entry = st.clone()
	fr.entrySt = fc.entry
	// frame
	fc.frameLocs, err = fc.parseModifies(c, env)
	if err != nil {
		return fc, err
	}
	// vacuity guard on the precondition
	fc.obls = append(fc.obls, &Obligation{Name: fr.prefix + "#vacuity:requires#1", Kind: "vacuity", Func: fr.prefix, Hyps: fc.axioms, PC: st.pc, Goal: True, ExpectSat: true, Pos: p.pos(fn.Pos()), Desc: "precondition is satisfiable", Props: c.Props, Alloc: st.alloc})
	fr.onReturn = func(rst *State, vals []Val) { fc.checkPost(fr, rst, vals) }
	ret, _ := fc.run(fr, st, args, fvs)
	for _, as := range c.Asserts {
		if !fc.assertSeen[as.Name] {
			panic(elabErr{fmt.Sprintf("%s:%d: assert_at %s: no such call in %s", c.File, as.Line, as.Name, funcKey(fn))})
		}
	}
	for k := range c.InlLoops {
		if !fc.inlLoopsSeen[k] {
			panic(elabErr{fmt.Sprintf("%s:%d: loop ... in %s: no such callee is inlined into %s", c.File, c.Line, k, funcKey(fn))})
		}
	}
	if !hasLoop(fn) && len(fc.inlinedWithLoops) == 0 {
		for _, o := range fc.obls {
			o.NoUnfold = true
		}
	}
	if ret == nil || ret.dead {
		// no normal return (e.g. always panics / infinite loop)
		return fc, nil
	}
	// smoke: some exit must be reachable
	fc.obls = append(fc.obls, &Obligation{Name: fr.prefix + "#vacuity:return#1", Kind: "vacuity", Func: fr.prefix, Hyps: fc.axioms, PC: ret.pc, Goal: True, ExpectSat: true, Pos: fc.p.pos(fr.fn.Pos()), Desc: "some return is reachable", Props: c.Props, Alloc: ret.alloc})
	return fc, nil
}

func (fc *FuncCtx) newFrame(fn *ssa.Function, prefix string, top bool) *Frame {
	fr := &Frame{fc: fc, fn: fn, regs: map[ssa.Value]Val{}, prefix: prefix, isTop: top, params: map[string]SVal{}}
	return fr
}

func (fc *FuncCtx) bindParams(fr *Frame, fn *ssa.Function, args []Val, fvs []Val, st *State) {
	for i, prm := range fn.Params {
		fr.regs[prm] = args[i]
		if args[i].T != nil {
			fr.params[prm.Name()] = SVal{T: args[i].T, Typ: prm.Type()}
		}
	}
	for i, fv := range fn.FreeVars {
		fr.regs[fv] = fvs[i]
	}
}

// freshVal creates an unconstrained value of a Go type plus its type invariant.
func (fc *FuncCtx) freshVal(name string, t types.Type, st *State) Val {
	if tup, ok := t.(*types.Tuple); ok {
		var vs []Val
		for i := 0; i < tup.Len(); i++ {
			vs = append(vs, fc.freshVal(fmt.Sprintf("%s.%d", name, i), tup.At(i).Type(), st))
		}
		return Val{Tup: vs}
	}
	s := sortOf(t)
	if sty, ok := t.Underlying().(*types.Struct); ok && s == nil {
		// an arbitrary struct value: a tuple of arbitrary field values
		var vs []Val
		for i := 0; i < sty.NumFields(); i++ {
			f := sty.Field(i)
			if _, nested := f.Type().Underlying().(*types.Struct); nested || sortOf(f.Type()) == nil {
				vs = append(vs, Val{})
				continue
			}
			vs = append(vs, fc.freshVal(name+"."+f.Name(), f.Type(), st))
		}
		return Val{Tup: vs}
	}
	if s == nil {
		if _, ok := t.Underlying().(*types.Pointer); ok {
			// pointer to scalar: an opaque one-element heap cell
			pt := t.Underlying().(*types.Pointer)
			if es := sortOf(pt.Elem()); es != nil {
				h := "P:" + typeKey(pt.Elem())
				fc.p.registerHeap(h, ArraySort(SInt, es))
				ref := Fresh(name, SInt)
				st.assume(And(Le(IntLit(0), ref), Le(ref, st.alloc)))
				return Val{LV: &LVal{Kind: lvField, Ref: ref, Heap: h, Typ: pt.Elem()}, T: ref}
			}
		}
		unsupp("value %s of type %s", name, t)
	}
	v := Fresh(name, s)
	st.assume(typeInv(t, v, st.alloc))
	if fc.wrap {
		if b, ok := t.Underlying().(*types.Basic); ok && (b.Kind() == types.Int || b.Kind() == types.Int64) {
			st.assume(And(Le(minInt64, v), Le(v, maxInt64)))
		}
	}
	return Val{T: v}
}

var (
	minInt64 = IntLitBig(bigFromString("-9223372036854775808"))
	maxInt64 = IntLitBig(bigFromString("9223372036854775807"))
	two64    = IntLitBig(bigFromString("18446744073709551616"))
	two63    = IntLitBig(bigFromString("9223372036854775808"))
)

// envFor builds the elaboration environment for clauses of the frame's function.
// If resultVals != nil, result names are bound. useLocals selects whether plain
// identifiers resolve to current local cells (invariants) or entry values (ensures).
func (fc *FuncCtx) envFor(fr *Frame, st *State, results []Val, useLocals bool) *Env {
	env := &Env{p: fc.p, pkg: fr.fn.Pkg.Pkg, vars: map[string]SVal{}, cur: st, old: fr.entrySt}
	for k, v := range fr.params {
		env.vars[k] = v
	}
	if results != nil {
		sig := fr.fn.Signature
		for i := 0; i < sig.Results().Len(); i++ {
			rv := sig.Results().At(i)
			if i < len(results) && results[i].T != nil {
				sv := SVal{T: results[i].T, Typ: rv.Type()}
				if rv.Name() != "" && rv.Name() != "_" {
					env.vars[rv.Name()] = sv
				}
				env.vars[fmt.Sprintf("result%d", i)] = sv
				if i == 0 {
					env.vars["result"] = sv
				}
			}
			if i < len(results) {
				bindStructResult(env.vars, rv, i, results[i])
			}
		}
	}
	if useLocals {
		env.local = func(name string) (SVal, bool) { return fc.lookupLocal(fr, st, name) }
	} else if len(fr.fn.FreeVars) > 0 {
		// a closure verified on its own: its requires/ensures may name the captured variables
		env.local = func(name string) (SVal, bool) { return fc.lookupFree(fr, st, name) }
	}
	fc.setOldLocal(fr, env)
	return env
}

// setOldLocal: inside old(...), a captured variable of a closure verified on its own denotes the value
// the shared cell had at the entry of the closure (other names resolve as outside old()).
func (fc *FuncCtx) setOldLocal(fr *Frame, env *Env) {
	if !fr.isTop || len(fr.fn.FreeVars) == 0 || fr.entrySt == nil {
		return
	}
	cur := env.local
	entry := fr.entrySt
	env.oldLocal = func(name string) (SVal, bool) {
		if v, ok := fc.lookupFree(fr, entry.clone(), name); ok {
			return v, true
		}
		if cur != nil {
			return cur(name)
		}
		return SVal{}, false
	}
}

// bindStructResult: a result of struct type is a tuple of its scalar fields; contracts name them
// <result name>_<Field> (and result<i>_<Field>), as for struct-valued parameters and channel elements.
func bindStructResult(vars map[string]SVal, rv *types.Var, i int, v Val) {
	sty, ok := rv.Type().Underlying().(*types.Struct)
	if !ok || v.T != nil || v.Tup == nil || len(v.Tup) != sty.NumFields() {
		return
	}
	for k, fv := range v.Tup {
		if fv.T == nil {
			continue
		}
		sv := SVal{T: fv.T, Typ: sty.Field(k).Type()}
		if rv.Name() != "" && rv.Name() != "_" {
			vars[rv.Name()+"_"+sty.Field(k).Name()] = sv
		}
		vars[fmt.Sprintf("result%d_%s", i, sty.Field(k).Name())] = sv
	}
}

// bindParentLocals: a function literal verified on its own whose contract has `preserves` clauses (an invariant
// shared with the enclosing function, e.g. its `goinv`) may name locals and parameters of the ENCLOSING function that
// it does not capture. The literal cannot assign such a variable, so during one activation it is a constant: an
// unconstrained value of its type (one per name, created here; names declared more than once in the enclosing
// function, and names of captured variables or parameters of the literal, are left out).
func (fc *FuncCtx) bindParentLocals(fn *ssa.Function, c *Contract, st *State) {
	par := fn.Parent()
	if par == nil || c == nil || len(c.Preserves) == 0 {
		return
	}
	own := map[string]bool{}
	for _, fv := range fn.FreeVars {
		own[fv.Name()] = true
	}
	for _, prm := range fn.Params {
		own[prm.Name()] = true
	}
	typs := map[string]types.Type{}
	count := map[string]int{}
	for _, b := range par.Blocks {
		for _, ins := range b.Instrs {
			if a, ok := ins.(*ssa.Alloc); ok && a.Comment != "" && !own[a.Comment] {
				count[a.Comment]++
				typs[a.Comment] = a.Type()
			}
		}
	}
	for _, l := range par.Locals {
		if l.Comment != "" && !own[l.Comment] {
			count[l.Comment]++
			typs[l.Comment] = l.Type()
		}
	}
	var names []string
	for n := range typs {
		if count[n] == 1 {
			names = append(names, n)
		}
	}
	sort.Strings(names)
	fc.parentLocals = map[string]SVal{}
	for _, n := range names {
		pt := typs[n].Underlying().(*types.Pointer)
		if isCellType(pt.Elem()) {
			if sortOf(pt.Elem()) == nil {
				continue
			}
			if v := fc.freshVal("outer."+n, pt.Elem(), st); v.T != nil {
				fc.parentLocals[n] = SVal{T: v.T, Typ: pt.Elem()}
			}
		} else if v := fc.freshVal("outer."+n, typs[n], st); v.T != nil {
			st.assume(Neq(v.T, IntLit(0))) // the address of a variable is never nil
			fc.parentLocals[n] = SVal{T: v.T, Typ: typs[n]}
		}
	}
}

func (fc *FuncCtx) lookupFree(fr *Frame, st *State, name string) (SVal, bool) {
	if fr.isTop {
		if v, ok := fc.parentLocals[name]; ok {
			return v, true
		}
	}
	for _, fv := range fr.fn.FreeVars {
		if fv.Name() == name {
			lv := fr.regs[fv]
			if lv.LV != nil {
				v := fc.load(fr, st, lv.LV, token.NoPos)
				if v.T != nil {
					return SVal{T: v.T, Typ: lv.LV.Typ}, true
				}
			}
			if lv.T != nil {
				return SVal{T: lv.T, Typ: fv.Type()}, true
			}
		}
	}
	return SVal{}, false
}

func (fc *FuncCtx) lookupLocal(fr *Frame, st *State, name string) (SVal, bool) {
	return fc.lookupLocalAt(fr, st, name, token.NoPos)
}

// lookupLocalAt: as lookupLocal; when `at` is a valid position (a loop statement),
// same-named variables whose lexical scope does not contain it are not candidates
// (a `for i := ...` of an earlier loop does not shadow an outer `i` used by a later loop).
func (fc *FuncCtx) lookupLocalAt(fr *Frame, st *State, name string, at token.Pos) (SVal, bool) {
	// current cells named `name`; prefer the most recently declared live one
	var best *ssa.Alloc
	var pkScope *types.Scope
	if at.IsValid() && fr.fn.Pkg != nil && fr.fn.Pkg.Pkg != nil {
		pkScope = fr.fn.Pkg.Pkg.Scope()
	}
	for a := range st.cells {
		if a.Comment == name && a.Parent() == fr.fn {
			if pkScope != nil && a.Pos().IsValid() {
				if sc := pkScope.Innermost(a.Pos()); sc != nil && sc != pkScope && !sc.Contains(at) {
					continue
				}
			}
			if best == nil || a.Pos() > best.Pos() {
				best = a
			}
		}
	}
	if best != nil {
		v := st.cells[best]
		if v.T != nil {
			return SVal{T: v.T, Typ: best.Type().Underlying().(*types.Pointer).Elem()}, true
		}
	}
	// struct- or array-typed locals live on the heap: the name denotes the object (its address)
	for v, val := range fr.regs {
		if a, ok := v.(*ssa.Alloc); ok && a.Comment == name && a.Parent() == fr.fn && val.T != nil && val.LV == nil {
			if !isCellType(a.Type().Underlying().(*types.Pointer).Elem()) {
				return SVal{T: val.T, Typ: a.Type()}, true
			}
		}
	}
	for _, fv := range fr.fn.FreeVars {
		if fv.Name() == name {
			lv := fr.regs[fv]
			if lv.LV != nil {
				v := fc.load(fr, st, lv.LV, token.NoPos)
				if v.T != nil {
					return SVal{T: v.T, Typ: lv.LV.Typ}, true
				}
			}
			if lv.T != nil {
				return SVal{T: lv.T, Typ: fv.Type()}, true
			}
		}
	}
	if fr.isTop {
		if v, ok := fc.parentLocals[name]; ok {
			return v, true
		}
	}
	if fr.parent != nil {
		// inlined frame: the variables (and parameters) of the calling frames are in scope as a last resort
		if v, ok := fc.lookupLocalAt(fr.parent, st, name, token.NoPos); ok {
			return v, true
		}
		if v, ok := fr.parent.params[name]; ok {
			return v, true
		}
	}
	return SVal{}, false
}

func (fc *FuncCtx) checkPost(fr *Frame, ret *State, vals []Val) {
	c := fc.contract
	// ghost assignments (auxiliary variables): run in order at the return, before hints and postconditions.
	// Only contract-only ghost fields can be assigned, so no program value depends on them; the writes
	// are subject to the modifies clause like any other (checkFrame below).
	for _, gs := range c.GhostSets {
		genv := fc.envFor(fr, ret, vals, true)
		func() {
			defer func() {
				if r := recover(); r != nil {
					if ee, ok := r.(elabErr); ok {
						panic(elabErr{fmt.Sprintf("%s:%d: ghostset: %s", c.File, gs.Line, ee.msg)})
					}
					panic(r)
				}
			}()
			name := gs.LHS.Args[0].(SIdent).Name
			if fc.p.externGhost[name] {
				panic(elabErr{"ghost field " + name + " models the state of a library object (specs/externs.spec): it cannot be assigned"})
			}
			obj := genv.elab(gs.LHS.Args[1])
			val := genv.elab(gs.RHS)
			if obj.T.Sort != SInt || val.T.Sort != SInt {
				panic(elabErr{"the object must be a reference and the value an integer"})
			}
			h := ghostFieldHeap(fc.p, name, gs.LHS.Fn == "gfa")
			cur := ret.H(fc.p, h)
			if gs.LHS.Fn == "gf" {
				ret.setH(h, Store(cur, obj.T, val.T))
			} else {
				ix := genv.elab(gs.LHS.Args[2])
				ret.setH(h, Store(cur, obj.T, Store(Select(cur, obj.T), ix.T, val.T)))
			}
		}()
	}
	if len(c.Hints) > 0 {
		henv := fc.envFor(fr, ret, vals, true)
		for _, h := range c.Hints {
			t, e := henv.ElabBool(h.Expr)
			if e != nil {
				panic(elabErr{fmt.Sprintf("%s:%d: hint: %v", c.File, h.Line, e)})
			}
			fc.addSplit(fr, ret, "hint", h.Text, t, fr.fn.Pos(), "intermediate fact at the return (proved, then used for the postconditions)")
			ret.assume(t)
		}
	}
	env := fc.envFor(fr, ret, vals, false)
	for _, en := range c.Ensures {
		t, e := env.ElabBool(en.Expr)
		if e != nil {
			panic(elabErr{fmt.Sprintf("%s:%d: ensures: %v", c.File, en.Line, e)})
		}
		fc.curTags = en.Tags
		fc.addSplit(fr, ret, "post", en.Text, t, fr.fn.Pos(), "postcondition")
		fc.curTags = nil
	}
	if c.IteratedBy != "" {
		// the function literal leaves what the iterator read before its loop unchanged
		_, ip, penv := fc.iterProtoEnv(c, fr.params["$it"], ret)
		fc.addObl(fr, ret, "iter-stable", ip.Text, Eq(penv.elab(ip.Stable).T, fc.iterStable0), fr.fn.Pos(), "the function literal does not change what its iterator reads once before the loop")
		// ... and keeps the iterator's own preconditions true for the next activation (they were assumed at entry)
		for _, rq := range fc.p.contracts[c.Pkg+"::"+c.IteratedBy].Requires {
			t, err := penv.ElabBool(rq.Expr)
			if err != nil {
				panic(elabErr{fmt.Sprintf("%s:%d: requires of %s: %v", c.File, c.Line, c.IteratedBy, err)})
			}
			fc.addSplit(fr, ret, "iter-pre", c.IteratedBy+":"+rq.Text, t, fr.fn.Pos(), "the function literal keeps the precondition of its iterator true for the next activation")
		}
	}
	// frame
	fc.checkFrame(fr, ret, "frame", fr.fn.Pos(), nil)
}

// iterProtoEnv: the iterator named by the `iterated_by` clause of the literal's contract c, its protocol, and an
// environment over state st in which the iterator's receiver is recv.
func (fc *FuncCtx) iterProtoEnv(c *Contract, recv SVal, st *State) (*ssa.Function, *IterProto, *Env) {
	key := c.Pkg + "::" + c.IteratedBy
	ic, itf := fc.p.contracts[key], fc.p.funcs[key]
	if ic == nil || itf == nil || ic.Iterates == nil || len(itf.Params) == 0 {
		panic(elabErr{fmt.Sprintf("%s:%d: iterated_by %s: no such function with an `iterates` clause", c.File, c.Line, c.IteratedBy)})
	}
	if !ic.ModifiesSet || len(ic.Modifies) != 0 {
		panic(elabErr{fmt.Sprintf("%s:%d: iterated_by %s: the iterator must be declared `modifies nothing`", c.File, c.Line, c.IteratedBy)})
	}
	env := &Env{p: fc.p, pkg: itf.Pkg.Pkg, vars: map[string]SVal{itf.Params[0].Name(): recv}, cur: st}
	return itf, ic.Iterates, env
}

// assumeIterProtocol: a function literal verified on its own under `iterated_by F`: this is activation $k of the loop of F
// (receiver $it): F's preconditions hold, 0 <= $k < count, and the parameters are the arguments F reads for index $k in the
// current heap.
func (fc *FuncCtx) assumeIterProtocol(fr *Frame, st *State, fn *ssa.Function, c *Contract, args []Val) {
	key := c.Pkg + "::" + c.IteratedBy
	itf := fc.p.funcs[key]
	if itf == nil || len(itf.Params) == 0 {
		panic(elabErr{fmt.Sprintf("%s:%d: iterated_by %s: no such function", c.File, c.Line, c.IteratedBy)})
	}
	rv := fc.freshVal("iter.recv", itf.Params[0].Type(), st)
	k := Fresh("iter.k", SInt)
	fr.params["$it"] = SVal{T: rv.T, Typ: itf.Params[0].Type()}
	fr.params["$k"] = SVal{T: k, Typ: tInt}
	_, ip, penv := fc.iterProtoEnv(c, fr.params["$it"], st)
	penv.vars["$k"] = fr.params["$k"]
	for _, rq := range fc.p.contracts[key].Requires {
		t, err := penv.ElabBool(rq.Expr)
		if err != nil {
			panic(elabErr{fmt.Sprintf("%s:%d: requires of %s: %v", c.File, c.Line, c.IteratedBy, err)})
		}
		st.assume(t)
	}
	st.assume(And(Le(IntLit(0), k), Lt(k, penv.elab(ip.Count).T)))
	if len(ip.Args) != len(fn.Params) {
		panic(elabErr{fmt.Sprintf("%s:%d: iterated_by %s: the iterator passes %d arguments, the literal takes %d", c.File, c.Line, c.IteratedBy, len(ip.Args), len(fn.Params))})
	}
	for i, a := range ip.Args {
		if args[i].T == nil {
			continue
		}
		v := penv.elab(a)
		if v.T.Sort != args[i].T.Sort {
			panic(elabErr{fmt.Sprintf("%s:%d: iterated_by %s: argument %d has sort %s, the parameter has sort %s", c.File, c.Line, c.IteratedBy, i, v.T.Sort.Name, args[i].T.Sort.Name)})
		}
		st.assume(Eq(args[i].T, v.T))
	}
	fc.iterStable0 = penv.elab(ip.Stable).T
	fc.note("function literal verified as one activation of the loop of " + c.IteratedBy + " (protocol: iterates " + ip.Text + ")")
}

// frameFormula: every old location of heap h outside the frame is unchanged between a and b
func (fc *FuncCtx) frameFormula(h string, before, after *Term, alloc0 *Term, locs []ModLoc) *Term {
	if before == after {
		return True
	}
	if strings.HasPrefix(h, "IT:") {
		return True
	}
	if strings.HasPrefix(h, "G:") || strings.HasPrefix(h, "FV:") {
		for _, l := range locs {
			if l.Heap == h {
				return True
			}
		}
		if strings.HasPrefix(h, "FV:") {
			return True // captured variables of a separately verified closure: governed by its own clauses
		}
		return Eq(before, after)
	}
	i := BVar("fr", SInt)
	var inFrame []*Term
	var ranged []ModLoc
	for _, l := range locs {
		if l.Heap != h {
			continue
		}
		if l.At == nil {
			return True
		}
		inFrame = append(inFrame, Eq(i, l.At))
		if l.Lo != nil {
			ranged = append(ranged, l)
		}
	}
	var ag *Term
	if alloc0 != nil {
		ag = And(Le(IntLit(0), i), Le(i, alloc0))
	}
	guard := And(ag, Not(Or(inFrame...)))
	out := Forall([]*Term{i}, Implies(guard, Eq(Select(after, i), Select(before, i))))
	// rows named with a cell range: cells outside every range given for that row are unchanged
	for _, l := range ranged {
		j := BVar("fj", SInt)
		var covered []*Term
		whole := False
		for _, l2 := range locs {
			if l2.Heap != h || l2.At == nil {
				continue
			}
			same := Eq(l2.At, l.At)
			if l2.Lo == nil {
				whole = Or(whole, same)
				continue
			}
			covered = append(covered, And(same, Le(l2.Lo, j), Lt(j, l2.Hi)))
		}
		var ag2 *Term
		if alloc0 != nil {
			ag2 = Le(l.At, alloc0)
		}
		out = And(out, Implies(And(ag2, Not(whole)), Forall([]*Term{j}, Implies(Not(Or(covered...)), Eq(Select(Select(after, l.At), j), Select(Select(before, l.At), j))))))
	}
	return out
}

func (fc *FuncCtx) checkFrame(fr *Frame, st *State, kind string, pos token.Pos, only map[string]bool) {
	for _, h := range sortedHeapNames(st, nil) {
		if only != nil && !only[h] {
			continue
		}
		before := initHeap(fc.p, h)
		after := st.heap[h]
		f := fc.frameFormula(h, before, after, fc.entry.alloc, fc.frameLocs)
		if f == True {
			continue
		}
		fc.addObl(fr, st, kind, h, f, pos, "locations outside the modifies clause are unchanged")
	}
}

// parseModifies elaborates the modifies clause of c in env.
func (fc *FuncCtx) parseModifies(c *Contract, env *Env) ([]ModLoc, error) {
	var out []ModLoc
	for _, m := range c.Modifies {
		locs, err := elabModLoc(fc.p, m, env)
		if err != nil {
			return nil, fmt.Errorf("%s:%d: modifies %s: %v", c.File, c.Line, m, err)
		}
		out = append(out, locs...)
	}
	return out, nil
}

func elabModLoc(p *Program, m string, env *Env) (locs []ModLoc, err error) {
	defer func() {
		if r := recover(); r != nil {
			switch e := r.(type) {
			case elabErr:
				err = fmt.Errorf("%s", e.msg)
			case unsupported:
				err = fmt.Errorf("%s", e.msg)
			default:
				panic(r)
			}
		}
	}()
	m = strings.TrimSpace(m)
	switch {
	case strings.HasPrefix(m, "mem(") && strings.HasSuffix(m, ")"):
		t := env.parseType(m[4 : len(m)-1])
		var locs []ModLoc
		for _, h := range p.elemHeaps(t) {
			locs = append(locs, ModLoc{Heap: h})
		}
		if len(locs) == 0 {
			unsupp("element type %s unsupported", t)
		}
		return locs, nil
	case strings.HasPrefix(m, "field(") && strings.HasSuffix(m, ")"):
		body := m[6 : len(m)-1]
		i := strings.LastIndex(body, ".")
		if i < 0 {
			return nil, fmt.Errorf("field(T.f) expected")
		}
		t := env.parseType(body[:i])
		st, ok := t.Underlying().(*types.Struct)
		if !ok {
			return nil, fmt.Errorf("%s is not a struct type", body[:i])
		}
		for k := 0; k < st.NumFields(); k++ {
			if st.Field(k).Name() == body[i+1:] {
				return []ModLoc{{Heap: p.fieldHeap(t, st.Field(k))}}, nil
			}
		}
		return nil, fmt.Errorf("no field %s", body[i+1:])
	case strings.HasPrefix(m, "maps(") && strings.HasSuffix(m, ")"):
		t := env.parseType(m[5 : len(m)-1])
		mt, ok := t.Underlying().(*types.Map)
		if !ok {
			return nil, fmt.Errorf("not a map type")
		}
		d, v, l := p.mapHeaps(mt)
		return []ModLoc{{Heap: d}, {Heap: v}, {Heap: l}}, nil
	case strings.HasPrefix(m, "map(") && strings.HasSuffix(m, ")"):
		e, perr := ParseSpec(m[4 : len(m)-1])
		if perr != nil {
			return nil, perr
		}
		v := env.elab(e)
		mt, ok := v.Typ.Underlying().(*types.Map)
		if !ok {
			return nil, fmt.Errorf("not a map")
		}
		d, vv, l := p.mapHeaps(mt)
		return []ModLoc{{Heap: d, At: v.T}, {Heap: vv, At: v.T}, {Heap: l, At: v.T}}, nil
	case strings.HasPrefix(m, "gfield(") && strings.HasSuffix(m, ")"):
		body := m[7 : len(m)-1]
		i := strings.LastIndex(body, ",")
		if i < 0 {
			return []ModLoc{{Heap: ghostFieldHeap(p, strings.TrimSpace(body), false)}}, nil
		}
		oe, perr := ParseSpec(body[:i])
		if perr != nil {
			return nil, perr
		}
		return []ModLoc{{Heap: ghostFieldHeap(p, strings.TrimSpace(body[i+1:]), false), At: env.elab(oe).T}}, nil
	case strings.HasPrefix(m, "global(") && strings.HasSuffix(m, ")"):
		name := m[7 : len(m)-1]
		obj := env.pkg.Scope().Lookup(name)
		if obj == nil {
			return nil, fmt.Errorf("no global %s", name)
		}
		return []ModLoc{{Heap: "G:" + obj.Pkg().Path() + "." + obj.Name()}}, nil
	case (strings.HasPrefix(m, "gf(") || strings.HasPrefix(m, "gfa(")) && strings.HasSuffix(m, ")"):
		// gf(name, x) / gfa(name, x): ghost field `name` of object x
		isArr := strings.HasPrefix(m, "gfa(")
		body := m[strings.Index(m, "(")+1 : len(m)-1]
		i := strings.Index(body, ";")
		if i < 0 {
			i = strings.Index(body, " ")
		}
		if i < 0 {
			// gf(name): that ghost field of every object
			return []ModLoc{{Heap: ghostFieldHeap(p, strings.TrimSpace(body), isArr)}}, nil
		}
		e, perr := ParseSpec(body[i+1:])
		if perr != nil {
			return nil, perr
		}
		v := env.elab(e)
		return []ModLoc{{Heap: ghostFieldHeap(p, strings.TrimSpace(body[:i]), isArr), At: v.T}}, nil
	case strings.HasPrefix(m, "deref(") && strings.HasSuffix(m, ")"):
		// deref(p): the cell behind a pointer to a scalar
		e, perr := ParseSpec(m[6 : len(m)-1])
		if perr != nil {
			return nil, perr
		}
		v := env.elab(e)
		h, _ := derefHeap(p, v)
		return []ModLoc{{Heap: h, At: v.T}}, nil
	case strings.HasPrefix(m, "captured(") && strings.HasSuffix(m, ")"):
		return []ModLoc{{Heap: "FV:" + m[9:len(m)-1]}}, nil
	case strings.HasSuffix(m, "[*]") || strings.HasSuffix(m, "[+]"):
		// x[*]: the cells of slice x (off .. off+len); x[+]: up to its capacity (in-place append)
		e, perr := ParseSpec(m[:len(m)-3])
		if perr != nil {
			return nil, perr
		}
		v := env.elab(e)
		sl, ok := v.Typ.Underlying().(*types.Slice)
		if !ok {
			return nil, fmt.Errorf("%s is not a slice", m[:len(m)-3])
		}
		hi := Add(SOff(v.T), SLen(v.T))
		if strings.HasSuffix(m, "[+]") {
			hi = Add(SOff(v.T), SCap(v.T))
		}
		return []ModLoc{{Heap: p.elemHeap(sl.Elem()), At: SBase(v.T), Lo: SOff(v.T), Hi: hi}}, nil
	}
	// x.f  or  x[i] (one cell of a slice)
	e, perr := ParseSpec(m)
	if perr != nil {
		return nil, perr
	}
	if ie, ok := e.(SIndex); ok {
		v := env.elab(ie.X)
		sl, ok := v.Typ.Underlying().(*types.Slice)
		if !ok {
			return nil, fmt.Errorf("%s: not a slice element", m)
		}
		iv := env.elab(ie.I)
		lo := Add(SOff(v.T), iv.T)
		return []ModLoc{{Heap: p.elemHeap(sl.Elem()), At: SBase(v.T), Lo: lo, Hi: Add(lo, IntLit(1))}}, nil
	}
	fe, ok := e.(SField)
	if !ok {
		return nil, fmt.Errorf("unsupported location form")
	}
	xv := env.elab(fe.X)
	ref, st := env.structPtr(xv)
	obj, index, _ := types.LookupFieldOrMethod(st, true, env.pkgOf(st), fe.Name)
	if _, ok := obj.(*types.Var); !ok {
		return nil, fmt.Errorf("no field %s", fe.Name)
	}
	cur := st
	for i, idx := range index {
		s := cur.Underlying().(*types.Struct)
		f := s.Field(idx)
		if i == len(index)-1 {
			return []ModLoc{{Heap: p.fieldHeap(cur, f), At: ref}}, nil
		}
		cur = f.Type()
	}
	return nil, fmt.Errorf("bad location")
}

// ---- CFG helpers ----

func rpo(fn *ssa.Function) []*ssa.BasicBlock {
	seen := map[*ssa.BasicBlock]bool{}
	var post []*ssa.BasicBlock
	var dfs func(b *ssa.BasicBlock)
	dfs = func(b *ssa.BasicBlock) {
		seen[b] = true
		for _, s := range b.Succs {
			if !seen[s] {
				dfs(s)
			}
		}
		post = append(post, b)
	}
	if len(fn.Blocks) > 0 {
		dfs(fn.Blocks[0])
	}
	for i, j := 0, len(post)-1; i < j; i, j = i+1, j-1 {
		post[i], post[j] = post[j], post[i]
	}
	return post
}

func isBackEdge(from, to *ssa.BasicBlock) bool { return to.Dominates(from) }

func (fc *FuncCtx) findLoops(fr *Frame) {
	fn := fr.fn
	fr.loops = map[*ssa.BasicBlock]*loopInfo{}
	for _, b := range fn.Blocks {
		for _, s := range b.Succs {
			if isBackEdge(b, s) {
				li := fr.loops[s]
				if li == nil {
					li = &loopInfo{header: s, blocks: map[*ssa.BasicBlock]bool{s: true}}
					fr.loops[s] = li
				}
				// natural loop: nodes reaching b without passing through s
				var stack []*ssa.BasicBlock
				if !li.blocks[b] {
					li.blocks[b] = true
					stack = append(stack, b)
				}
				for len(stack) > 0 {
					x := stack[len(stack)-1]
					stack = stack[:len(stack)-1]
					for _, pr := range x.Preds {
						if !li.blocks[pr] {
							li.blocks[pr] = true
							stack = append(stack, pr)
						}
					}
				}
			}
		}
	}
	var headers []*ssa.BasicBlock
	for h := range fr.loops {
		headers = append(headers, h)
	}
	sort.Slice(headers, func(i, j int) bool { return headers[i].Index < headers[j].Index })
	astLoops := loopsOf(fn.Syntax())
	if len(astLoops) != len(headers) {
		// goto loops or optimised-away loops: fall back to ordinal by header index
		astLoops = nil
	}
	c := fr.contract
	for i, h := range headers {
		li := fr.loops[h]
		li.ordinal = i + 1
		if astLoops != nil {
			li.stmt = astLoops[i]
		}
		if c != nil {
			li.lc = c.Loops[li.ordinal]
		}
		if lc := fr.inlLoops[li.ordinal]; lc != nil {
			li.lc = lc
			li.fromTop = true
		}
		// rangeindex detection
		for _, ins := range h.Instrs {
			if stt, ok := ins.(*ssa.Store); ok {
				if a, ok := stt.Addr.(*ssa.Alloc); ok && a.Comment == "rangeindex" {
					li.rangeIx = a
				}
			}
			if bo, ok := ins.(*ssa.BinOp); ok && bo.Op == token.LSS && li.rangeIx != nil {
				li.rangeLn = bo.Y
			}
		}
	}
	if c != nil && fr.isTop {
		for n := range c.Loops {
			if n < 1 || n > len(headers) {
				panic(elabErr{fmt.Sprintf("%s:%d: contract names loop %d but %s has %d loop(s)", c.File, c.Line, n, funcKey(fn), len(headers))})
			}
		}
	}
}

// ---- modified sets ----

type modInfo struct {
	heaps  map[string]bool
	allocs bool
}

func (fc *FuncCtx) addrHeap(v ssa.Value) (cell *ssa.Alloc, heap string) {
	switch a := v.(type) {
	case *ssa.Alloc:
		et := a.Type().Underlying().(*types.Pointer).Elem()
		if isCellType(et) {
			return a, ""
		}
		return nil, ""
	case *ssa.FieldAddr:
		st := a.X.Type().Underlying().(*types.Pointer).Elem()
		f := st.Underlying().(*types.Struct).Field(a.Field)
		if sortOf(f.Type()) == nil {
			return nil, ""
		}
		if ia, ok := a.X.(*ssa.IndexAddr); ok {
			if elT := indexedElem(ia.X.Type()); elT != nil && flatStructFields(elT) != nil {
				return nil, fc.p.elemFieldHeap(elT, f) // field of an element of a slice of flat structs
			}
		}
		return nil, fc.p.fieldHeap(st, f)
	case *ssa.IndexAddr:
		switch u := a.X.Type().Underlying().(type) {
		case *types.Slice:
			if sortOf(u.Elem()) == nil {
				return nil, ""
			}
			return nil, fc.p.elemHeap(u.Elem())
		case *types.Pointer:
			if at, ok := u.Elem().Underlying().(*types.Array); ok && sortOf(at.Elem()) != nil {
				return nil, fc.p.elemHeap(at.Elem())
			}
		}
	case *ssa.Global:
		et := a.Type().Underlying().(*types.Pointer).Elem()
		if sortOf(et) != nil {
			n := "G:" + a.Pkg.Pkg.Path() + "." + a.Name()
			fc.p.registerHeap(n, sortOf(et))
			return nil, n
		}
	case *ssa.FreeVar:
		return nil, "FV:" + funcKey(a.Parent()) + "." + a.Name()
	}
	return nil, ""
}

func isCellType(t types.Type) bool {
	switch t.Underlying().(type) {
	case *types.Struct, *types.Array:
		return false
	}
	return true
}

// modOfBlocks computes the cells and heap arrays possibly written by the given blocks.
func (fc *FuncCtx) modOfBlocks(fr *Frame, blocks map[*ssa.BasicBlock]bool) (map[*ssa.Alloc]bool, *modInfo) {
	cells := map[*ssa.Alloc]bool{}
	mi := &modInfo{heaps: map[string]bool{}}
	for b := range blocks {
		for _, ins := range b.Instrs {
			fc.modOfInstr(fr, ins, cells, mi, 0)
		}
	}
	return cells, mi
}

func (fc *FuncCtx) modOfInstr(fr *Frame, ins ssa.Instruction, cells map[*ssa.Alloc]bool, mi *modInfo, depth int) {
	switch x := ins.(type) {
	case *ssa.Store:
		c, h := fc.addrHeap(x.Addr)
		if c != nil && cells != nil {
			cells[c] = true
		}
		if fv, ok := x.Addr.(*ssa.FreeVar); ok && fr != nil {
			// a function literal inlined into its caller: the captured variable is a cell of an enclosing frame
			// (added to `cells` below), not the one-element heap "FV:..." used when the literal is verified on its own
			if lv := fr.regs[fv]; lv.LV != nil && lv.LV.Kind == lvCell {
				h = ""
			}
		}
		if h != "" {
			mi.heaps[h] = true
		}
		if ia, ok := x.Addr.(*ssa.IndexAddr); ok {
			// store of a whole struct into an element of a slice/array of flat structs: every per-field heap
			if elT := indexedElem(ia.X.Type()); elT != nil && sortOf(elT) == nil {
				for _, eh := range fc.p.elemHeaps(elT) {
					mi.heaps[eh] = true
				}
			}
		}
		if fv, ok := x.Addr.(*ssa.FreeVar); ok && fr != nil {
			// closure writing a captured cell of the enclosing frame
			if lv := fr.regs[fv]; lv.LV != nil && lv.LV.Kind == lvCell && cells != nil {
				cells[lv.LV.Alloc] = true
			}
		}
	case *ssa.Alloc:
		if x.Heap || !isCellType(x.Type().Underlying().(*types.Pointer).Elem()) {
			mi.allocs = true
		}
		if cells != nil && isCellType(x.Type().Underlying().(*types.Pointer).Elem()) {
			cells[x] = true
		}
	case *ssa.MakeSlice, *ssa.MakeMap, *ssa.MakeChan, *ssa.MakeClosure:
		mi.allocs = true
	case *ssa.MakeInterface:
	case *ssa.Convert:
		if _, ok := x.Type().Underlying().(*types.Slice); ok {
			mi.allocs = true
			if sl := x.Type().Underlying().(*types.Slice); sortOf(sl.Elem()) != nil {
				mi.heaps[fc.p.elemHeap(sl.Elem())] = true
			}
		}
	case *ssa.MapUpdate:
		if mt, ok := x.Map.Type().Underlying().(*types.Map); ok {
			d, v, l := fc.p.mapHeaps(mt)
			mi.heaps[d], mi.heaps[v], mi.heaps[l] = true, true, true
		}
	case *ssa.Call:
		fc.modOfCall(fr, &x.Call, cells, mi, depth)
	case *ssa.Defer:
		fc.modOfCall(fr, &x.Call, cells, mi, depth)
	case *ssa.Go:
		// effects of a spawned goroutine are not modelled sequentially
	case *ssa.Send:
		mi.heaps["ghost:chan"] = true
	case *ssa.Next:
		if r, ok := x.Iter.(*ssa.Range); ok {
			if mt, ok := r.X.Type().Underlying().(*types.Map); ok {
				h := iterHeapName(r)
				fc.p.registerHeap(h, ArraySort(sortOf(mt.Key()), SBool))
				mi.heaps[h] = true
				fc.p.registerHeap(h+"#n", SInt)
				mi.heaps[h+"#n"] = true
				if fc.p.iterSumHeaps(r) {
					mi.heaps[h+"#sum"] = true
				}
			}
		}
	}
}

func (fc *FuncCtx) modOfCall(fr *Frame, call *ssa.CallCommon, cells map[*ssa.Alloc]bool, mi *modInfo, depth int) {
	if bi, ok := call.Value.(*ssa.Builtin); ok {
		switch bi.Name() {
		case "append":
			mi.allocs = true
			if sl, ok := call.Args[0].Type().Underlying().(*types.Slice); ok {
				for _, h := range fc.p.elemHeaps(sl.Elem()) {
					mi.heaps[h] = true
				}
			}
		case "copy":
			if sl, ok := call.Args[0].Type().Underlying().(*types.Slice); ok && sortOf(sl.Elem()) != nil {
				mi.heaps[fc.p.elemHeap(sl.Elem())] = true
			}
		case "delete":
			if mt, ok := call.Args[0].Type().Underlying().(*types.Map); ok {
				d, v, l := fc.p.mapHeaps(mt)
				mi.heaps[d], mi.heaps[v], mi.heaps[l] = true, true, true
			}
		}
		return
	}
	callee := fc.resolveCallee(fr, call)
	if callee == nil {
		// closure value: try static MakeClosure
		if mc, ok := call.Value.(*ssa.MakeClosure); ok {
			callee = mc.Fn.(*ssa.Function)
		} else if fv, ok := fc.knownFnVal(fr, call.Value); ok {
			// call of a function value known in this (inlined) frame, e.g. the `it` parameter of an
			// iterator inlined into its caller: the effects are those of the function literal,
			// including its assignments to the captured variables of the frames below
			cm := fc.modOfFunc(fv.Fn, depth+1)
			for h := range cm.heaps {
				if !strings.HasPrefix(h, "FV:") {
					mi.heaps[h] = true
				}
			}
			mi.allocs = true
			if cells != nil {
				fc.capturedStores(fv, cells, 0)
			}
			return
		} else {
			if call.IsInvoke() {
				// interface method with several implementations: used through its interface-level contract
				// (calls.go); the heaps that contract lets the method write belong to the loop's modified set
				key := "(" + typeKeyShort(call.Value.Type()) + ")." + call.Method.Name()
				pk := ""
				if nt, ok := call.Value.Type().(*types.Named); ok && nt.Obj().Pkg() != nil {
					pk = nt.Obj().Pkg().Path()
				}
				if c, ok := fc.p.ifaceContracts[pk+"::"+key]; ok {
					for _, h := range fc.ifaceModHeaps(c, call) {
						mi.heaps[h] = true
					}
				}
			}
			if fr != nil && !call.IsInvoke() {
				// the effects of an unknown function value cannot be bounded (silently ignoring them would
				// leave what it writes un-havocked at the loop head)
				unsupp("call of a function value that cannot be resolved statically, inside a loop of %s", fr.fn)
			}
			mi.allocs = true
			return
		}
	}
	sub := fc.modOfFunc(callee, depth+1)
	for h := range sub.heaps {
		mi.heaps[h] = true
	}
	if sub.allocs {
		mi.allocs = true
	}
	// closures passed as arguments may write captured cells of this frame
	for _, a := range call.Args {
		if mc, ok := a.(*ssa.MakeClosure); ok {
			cf := mc.Fn.(*ssa.Function)
			cm := fc.modOfFunc(cf, depth+1)
			for h := range cm.heaps {
				if strings.HasPrefix(h, "FV:") {
					continue // the literal's captured variables are cells of this frame: handled below
				}
				mi.heaps[h] = true
			}
			if cm.allocs {
				mi.allocs = true
			}
			if cells != nil {
				for _, b := range cf.Blocks {
					for _, ins := range b.Instrs {
						if st, ok := ins.(*ssa.Store); ok {
							if fv, ok := st.Addr.(*ssa.FreeVar); ok {
								for k, f := range cf.FreeVars {
									if f == fv {
										if al, ok := mc.Bindings[k].(*ssa.Alloc); ok {
											cells[al] = true
										}
									}
								}
							}
						}
					}
				}
			}
		}
	}
}

// knownFnVal: the function literal (with its bindings) a function-typed SSA value denotes in the frame
func (fc *FuncCtx) knownFnVal(fr *Frame, v ssa.Value) (*FnVal, bool) {
	if fr == nil {
		return nil, false
	}
	if r, ok := fr.regs[v]; ok && r.Fn != nil && r.Fn.Fn != nil {
		return r.Fn, true
	}
	// NaiveForm: a function-typed parameter or local lives in a cell and is loaded before the call; the
	// load inside a loop body has not been executed when the loop's modified set is computed, so
	// resolve it statically: the cell must be assigned exactly once in the function
	if u, ok := v.(*ssa.UnOp); ok && u.Op == token.MUL {
		if a, ok := u.X.(*ssa.Alloc); ok && a.Parent() == fr.fn {
			var stored ssa.Value
			n := 0
			for _, b := range fr.fn.Blocks {
				for _, ins := range b.Instrs {
					if st, ok := ins.(*ssa.Store); ok && st.Addr == a {
						stored = st.Val
						n++
					}
				}
			}
			if n == 1 {
				if mc, ok := stored.(*ssa.MakeClosure); ok {
					if r, ok := fr.regs[mc]; ok && r.Fn != nil {
						return r.Fn, true
					}
					// not executed yet: bindings by SSA value
					var bs []Val
					for _, bv := range mc.Bindings {
						if ba, ok := bv.(*ssa.Alloc); ok && isCellType(ba.Type().Underlying().(*types.Pointer).Elem()) {
							bs = append(bs, Val{LV: &LVal{Kind: lvCell, Alloc: ba}})
						} else {
							bs = append(bs, Val{})
						}
					}
					return &FnVal{Fn: mc.Fn.(*ssa.Function), Bindings: bs}, true
				}
				if r, ok := fr.regs[stored]; ok && r.Fn != nil && r.Fn.Fn != nil {
					return r.Fn, true
				}
				if f, ok := stored.(*ssa.Function); ok {
					return &FnVal{Fn: f}, true
				}
			}
		}
	}
	return nil, false
}

// capturedStores: the cells of enclosing frames that a function literal (or a literal it calls
// directly through one of its own captured function values) assigns
func (fc *FuncCtx) capturedStores(fv *FnVal, cells map[*ssa.Alloc]bool, depth int) {
	if depth > 4 {
		unsupp("nested function literals too deep")
	}
	for _, b := range fv.Fn.Blocks {
		for _, ins := range b.Instrs {
			if st, ok := ins.(*ssa.Store); ok {
				if v, ok := st.Addr.(*ssa.FreeVar); ok {
					for k, f := range fv.Fn.FreeVars {
						if f == v && k < len(fv.Bindings) {
							if lv := fv.Bindings[k].LV; lv != nil && lv.Kind == lvCell {
								cells[lv.Alloc] = true
							}
						}
					}
				}
			}
			if mc, ok := ins.(*ssa.MakeClosure); ok {
				_ = mc
				unsupp("function literal creating another function literal, called through a function value in a loop")
			}
		}
	}
}

func (fc *FuncCtx) modOfFunc(f *ssa.Function, depth int) *modInfo {
	if mi, ok := fc.p.modCache[f]; ok {
		return mi
	}
	mi := &modInfo{heaps: map[string]bool{}}
	fc.p.modCache[f] = mi // recursion guard
	if c := fc.p.contractOf(f); c != nil && !c.Inline {
		for _, h := range fc.contractModHeaps(f, c) {
			mi.heaps[h] = true
		}
		mi.allocs = true
		return mi
	}
	if ext := fc.p.externFor(f); ext != nil {
		for _, h := range fc.contractModHeaps(f, ext) {
			mi.heaps[h] = true
		}
		mi.allocs = true
		return mi
	}
	if !fc.p.inRepo(f) || len(f.Blocks) == 0 || depth > 8 {
		mi.allocs = true
		return mi
	}
	for _, b := range f.Blocks {
		for _, ins := range b.Instrs {
			fc.modOfInstr(nil, ins, nil, mi, depth)
		}
	}
	return mi
}

// ifaceModHeaps: heap array names of the modifies clause of an interface-level contract
func (fc *FuncCtx) ifaceModHeaps(c *Contract, call *ssa.CallCommon) []string {
	st := &State{pc: True, cells: map[*ssa.Alloc]Val{}, heap: map[string]*Term{}, ghost: map[string]*Term{}, alloc: Var("$m.alloc", SInt)}
	env := &Env{p: fc.p, vars: map[string]SVal{}, cur: st, old: st}
	if nt, ok := call.Value.Type().(*types.Named); ok && nt.Obj().Pkg() != nil {
		env.pkg = nt.Obj().Pkg()
	}
	env.vars["recv"] = SVal{T: Var("$m.recv", SInt), Typ: call.Value.Type()}
	sig := call.Method.Type().(*types.Signature)
	for i := 0; i < sig.Params().Len(); i++ {
		if s := sortOf(sig.Params().At(i).Type()); s != nil && sig.Params().At(i).Name() != "" {
			env.vars[sig.Params().At(i).Name()] = SVal{T: Var("$m."+sig.Params().At(i).Name(), s), Typ: sig.Params().At(i).Type()}
		}
	}
	var out []string
	for _, m := range c.Modifies {
		locs, err := elabModLoc(fc.p, m, env)
		if err != nil {
			panic(elabErr{fmt.Sprintf("%s:%d: modifies %q: %v", c.File, c.Line, m, err)})
		}
		for _, l := range locs {
			out = append(out, l.Heap)
		}
	}
	return out
}

// contractModHeaps: heap array names of a contract's modifies clause
func (fc *FuncCtx) contractModHeaps(f *ssa.Function, c *Contract) []string {
	st := &State{pc: True, cells: map[*ssa.Alloc]Val{}, heap: map[string]*Term{}, ghost: map[string]*Term{}, alloc: Var("$m.alloc", SInt)}
	env := &Env{p: fc.p, vars: map[string]SVal{}, cur: st, old: st}
	if f != nil && f.Pkg != nil {
		env.pkg = f.Pkg.Pkg
	}
	names := paramNames(f, c)
	if f != nil {
		// parameter types from the signature (functions of dependencies have no SSA parameters)
		var ptypes []types.Type
		if f.Signature.Recv() != nil {
			ptypes = append(ptypes, f.Signature.Recv().Type())
		}
		for i := 0; i < f.Signature.Params().Len(); i++ {
			ptypes = append(ptypes, f.Signature.Params().At(i).Type())
		}
		if len(names) == 0 {
			if f.Signature.Recv() != nil {
				names = append(names, f.Signature.Recv().Name())
			}
			for i := 0; i < f.Signature.Params().Len(); i++ {
				names = append(names, f.Signature.Params().At(i).Name())
			}
		}
		for i, pt := range ptypes {
			if s := sortOf(pt); s != nil && i < len(names) {
				env.vars[names[i]] = SVal{T: Var("$m."+names[i], s), Typ: pt}
			}
		}
		if len(f.Params) == 0 && f.Signature != nil {
			// function without a body (library function under an extern contract): parameters from the signature
			var pts []types.Type
			if r := f.Signature.Recv(); r != nil {
				pts = append(pts, r.Type())
			}
			for i := 0; i < f.Signature.Params().Len(); i++ {
				pts = append(pts, f.Signature.Params().At(i).Type())
			}
			for i, pt := range pts {
				if s := sortOf(pt); s != nil && i < len(names) {
					env.vars[names[i]] = SVal{T: Var("$m."+names[i], s), Typ: pt}
				}
			}
		}
		if len(f.Params) == 0 && f.Signature != nil {
			// external function without a body: parameter types from the signature
			var ptypes []types.Type
			if f.Signature.Recv() != nil {
				ptypes = append(ptypes, f.Signature.Recv().Type())
			}
			for i := 0; i < f.Signature.Params().Len(); i++ {
				ptypes = append(ptypes, f.Signature.Params().At(i).Type())
			}
			for i, pt := range ptypes {
				if s := sortOf(pt); s != nil && i < len(names) {
					env.vars[names[i]] = SVal{T: Var("$m."+names[i], s), Typ: pt}
				}
			}
		}
	}
	var out []string
	for _, m := range c.Modifies {
		locs, err := elabModLoc(fc.p, m, env)
		if err != nil {
			panic(elabErr{fmt.Sprintf("%s:%d: modifies %q: %v", c.File, c.Line, m, err)})
		}
		for _, l := range locs {
			out = append(out, l.Heap)
		}
	}
	return out
}

func paramNames(f *ssa.Function, c *Contract) []string {
	if c != nil && len(c.Params) > 0 {
		return c.Params
	}
	var out []string
	if f != nil {
		for _, p := range f.Params {
			out = append(out, p.Name())
		}
	}
	return out
}

// ---- running a frame ----

type edgeKey struct{ from, to int }

func (fc *FuncCtx) run(fr *Frame, st0 *State, args []Val, fvs []Val) (*State, []Val) {
	fn := fr.fn
	if len(fn.Blocks) == 0 {
		unsupp("function %s has no body", fn)
	}
	for _, f := range fc.stack {
		if f == fn {
			unsupp("recursive inlining of %s", fn)
		}
	}
	fc.stack = append(fc.stack, fn)
	defer func() { fc.stack = fc.stack[:len(fc.stack)-1] }()
	if fr.entrySt == nil {
		fr.entrySt = st0.clone()
	}
	if len(fr.regs) == 0 || fr.regs[firstParamOrNil(fn)].T == nil && fr.regs[firstParamOrNil(fn)].LV == nil {
		fc.bindParams(fr, fn, args, fvs, st0)
	}
	fc.findLoops(fr)
	order := rpo(fn)
	in := map[*ssa.BasicBlock][]*State{}
	inPred := map[*ssa.BasicBlock][]*ssa.BasicBlock{}
	in[fn.Blocks[0]] = []*State{st0}
	inPred[fn.Blocks[0]] = []*ssa.BasicBlock{nil}
	var rets []retPoint
	for _, b := range order {
		sts := in[b]
		if len(sts) == 0 {
			continue
		}
		st, liveIdx, sels := mergeStatesSel(fc.p, sts)
		if st.dead {
			continue
		}
		// phis
		for _, ins := range b.Instrs {
			phi, ok := ins.(*ssa.Phi)
			if !ok {
				break
			}
			if fr.loops[b] != nil {
				unsupp("phi at loop header in %s", fn)
			}
			var v Val
			for n, k := range liveIdx {
				pr := inPred[b][k]
				// find edge index of pr among b.Preds
				var ev Val
				found := false
				for pi, pp := range b.Preds {
					if pp == pr {
						ev = fc.value(fr, phi.Edges[pi])
						found = true
						break
					}
				}
				if !found {
					unsupp("phi edge not found")
				}
				if n == 0 {
					v = ev
				} else {
					v = mergeVal(sels[n], ev, v)
				}
			}
			fr.regs[phi] = v
		}
		if li := fr.loops[b]; li != nil {
			st = fc.enterLoop(fr, li, st)
		}
		fc.execBlock(fr, b, st, in, inPred, &rets)
	}
	// merge returns
	if len(rets) == 0 {
		return nil, nil
	}
	var rsts []*State
	for _, r := range rets {
		rsts = append(rsts, r.st)
	}
	out, liveIdx, sels := mergeStatesSel(fc.p, rsts)
	var vals []Val
	nres := fn.Signature.Results().Len()
	for i := 0; i < nres; i++ {
		var v Val
		for n, k := range liveIdx {
			if n == 0 {
				v = rets[k].vals[i]
			} else {
				v = mergeVal(sels[n], rets[k].vals[i], v)
			}
		}
		vals = append(vals, v)
	}
	return out, vals
}

func firstParamOrNil(fn *ssa.Function) ssa.Value {
	if len(fn.Params) > 0 {
		return fn.Params[0]
	}
	return nil
}

func (fc *FuncCtx) enterLoop(fr *Frame, li *loopInfo, st *State) *State {
	li.entry = st.clone()
	cells, mi := fc.modOfBlocks(fr, li.blocks)
	pos := li.header.Instrs[0].Pos()
	if li.stmt != nil {
		pos = li.stmt.Pos()
	}
	loopName := fmt.Sprintf("loop%d", li.ordinal)
	// 1. invariants hold on entry
	invs := fc.loopInvariants(fr, li, st, mi, cells)
	for _, iv := range invs {
		t := iv.at(st)
		fc.curTags = iv.tags
		fc.addSplit(fr, st, "inv-entry", loopName+":"+iv.text, t, pos, "loop invariant holds on entry")
		fc.curTags = nil
	}
	// 2. havoc
	h := st.clone()
	var cellList []*ssa.Alloc
	for c := range cells {
		cellList = append(cellList, c)
	}
	sort.Slice(cellList, func(i, j int) bool {
		return cellList[i].Pos() < cellList[j].Pos() || (cellList[i].Pos() == cellList[j].Pos() && cellList[i].Name() < cellList[j].Name())
	})
	if mi.allocs {
		na := Fresh(fmt.Sprintf("alloc.%s", loopName), SInt)
		h.assume(Le(st.alloc, na))
		h.alloc = na
	}
	for _, c := range cellList {
		if old, ok := h.cells[c]; ok {
			et := c.Type().Underlying().(*types.Pointer).Elem()
			if old.T != nil {
				h.cells[c] = fc.freshVal(fmt.Sprintf("%s.%s", loopName, cellName(c)), et, h)
			} else if old.LV != nil || old.Fn != nil {
				// pointer/function-valued cell modified in a loop
				unsupp("loop modifies pointer-valued local %s", cellName(c))
			}
		}
	}
	var hs []string
	for k := range mi.heaps {
		hs = append(hs, k)
	}
	sort.Strings(hs)
	for _, k := range hs {
		if strings.HasPrefix(k, "ghost:") {
			continue
		}
		h.heap[k] = Fresh(heapVarName(k)+"."+loopName, heapSort(k, fc.p))
		fc.p.noteHeapVar(h.heap[k], k, h.alloc)
	}
	for k := range h.ghost {
		if mi.heaps["ghost:"+k] || mi.heaps["ghost:chan"] {
			h.ghost[k] = Fresh("ghost."+k+"."+loopName, SInt)
		}
	}
	// 3. assume invariants
	for _, iv := range invs {
		h.assume(iv.at(h))
	}
	li.head = h.clone()
	if li.lc != nil && li.lc.Decreases != nil {
		env := fc.envFor(fr, h, nil, true)
		fc.bindLoopVars(fr, li, h, env)
		fc.topLoopEnv(li, env)
		v, err := env.ElabTerm(li.lc.Decreases.Expr)
		if err != nil {
			panic(elabErr{fmt.Sprintf("line %d: decreases: %v", li.lc.Decreases.Line, err)})
		}
		li.variant = v.T
	}
	return h
}

func cellName(a *ssa.Alloc) string {
	if a.Comment != "" {
		return a.Comment
	}
	return a.Name()
}

type invariant struct {
	text string
	at   func(st *State) *Term
	auto bool
	tags []string // property tags: the invariant is proved and assumed only in runs for these properties
}

func (fc *FuncCtx) bindLoopVars(fr *Frame, li *loopInfo, st *State, env *Env) {
	if env.local != nil && li.stmt != nil {
		at := li.stmt.Pos()
		env.local = func(name string) (SVal, bool) { return fc.lookupLocalAt(fr, st, name, at) }
		fc.setOldLocal(fr, env)
	}
	// visited(k): the ghost visited set of the map iteration of this loop;
	// visited<n>(k): the same for the map-range loop with ordinal n (for the invariants of a loop nested in it)
	for _, l := range fr.loops {
		if l.header == nil {
			continue
		}
		for _, ins := range l.header.Instrs {
			if nx, ok := ins.(*ssa.Next); ok {
				if r, ok := nx.Iter.(*ssa.Range); ok {
					if _, ok := r.X.Type().Underlying().(*types.Map); ok {
						if l == li {
							env.vars["$vis"] = SVal{T: st.H(fc.p, iterHeapName(r))}
							// $i of a map range: the number of keys produced so far
							env.vars["$i"] = SVal{T: st.H(fc.p, iterHeapName(r)+"#n"), Typ: tInt}
							if _, has := st.heap[iterHeapName(r)+"#sum"]; has {
								env.vars["$isum"] = SVal{T: st.H(fc.p, iterHeapName(r)+"#sum"), Typ: tInt}
							}
						} else if _, started := st.heap[iterHeapName(r)]; started {
							// only once that iteration has begun on this path (its ghost set exists)
							env.vars[fmt.Sprintf("$vis%d", l.ordinal)] = SVal{T: st.H(fc.p, iterHeapName(r))}
						}
					}
				}
			}
		}
	}
	// $variant<n>: the value the variant (`decreases`) of loop n had at its head in the current iteration of loop n;
	// lets the invariants of an inner loop record the progress made since the head of the enclosing loop
	for _, l := range fr.loops {
		if l != li && l.variant != nil {
			env.vars[fmt.Sprintf("$variant%d", l.ordinal)] = SVal{T: l.variant, Typ: tInt}
		}
	}
	// $i: number of completed iterations of this range loop (= next index);
	// $i<n>: the same for the enclosing/other range loop with ordinal n
	for _, l := range fr.loops {
		if l.rangeIx != nil {
			if v, ok := st.cells[l.rangeIx]; ok && v.T != nil {
				t := SVal{T: Add(v.T, IntLit(1)), Typ: tInt}
				env.vars[fmt.Sprintf("$i%d", l.ordinal)] = t
				if l == li {
					env.vars["$i"] = t
				}
			}
		}
		// $variant<n>: value of the variant of loop n at its head in the current iteration of loop n
		// (a fixed term: usable in the invariants of a loop nested in loop n to carry "the measure has
		// not grown since the head of the enclosing loop" through the inner loop)
		if l != li && l.variant != nil {
			env.vars[fmt.Sprintf("$variant%d", l.ordinal)] = SVal{T: l.variant, Typ: tInt}
			env.vars[fmt.Sprintf("$v%d", l.ordinal)] = SVal{T: l.variant, Typ: tInt}
		}
	}
}

// topLoopEnv: clauses that the contract of the function under verification gives for a loop of an
// inlined callee ("loop <n> in <callee>") are read in the two-state context of that function:
// old() and fresh() refer to ITS entry, package constants to its package. Identifiers resolve to the
// inlined callee's variables first, then to those of the calling frames (lookupLocalAt).
func (fc *FuncCtx) topLoopEnv(li *loopInfo, env *Env) {
	if !li.fromTop {
		return
	}
	env.old = fc.entry
	if fc.top.Pkg != nil {
		env.pkg = fc.top.Pkg.Pkg
	}
}

// activeProp: the property of this run (-prop); "" = all
var activeProp string

func (fc *FuncCtx) loopInvariants(fr *Frame, li *loopInfo, entry *State, mi *modInfo, cells map[*ssa.Alloc]bool) []invariant {
	var out []invariant
	c := fr.contract
	if li.fromTop {
		c = fc.contract
	}
	if li.lc != nil {
		for _, cl := range li.lc.Invariants {
			cl := cl
			if activeProp != "" && len(cl.Tags) > 0 && !hasStr(cl.Tags, activeProp) {
				// an invariant restricted to other properties is neither proved nor assumed in this run
				continue
			}
			out = append(out, invariant{text: cl.Text, tags: cl.Tags, at: func(st *State) *Term {
				env := fc.envFor(fr, st, nil, true)
				fc.bindLoopVars(fr, li, st, env)
				fc.topLoopEnv(li, env)
				env.entrySt = entry
				env.entryLocal = func(name string) (SVal, bool) { return fc.lookupLocal(fr, entry, name) }
				t, err := env.ElabBool(cl.Expr)
				if err != nil {
					panic(elabErr{fmt.Sprintf("%s:%d: invariant: %v", c.File, cl.Line, err)})
				}
				return t
			}})
		}
	}
	if li.lc != nil && li.lc.NoAuto {
		return out
	}
	// auto: rangeindex bounds
	if li.rangeIx != nil && li.rangeLn != nil {
		ln := fc.value(fr, li.rangeLn)
		ix := li.rangeIx
		if ln.T != nil {
			out = append(out, invariant{text: "auto:rangeindex", auto: true, at: func(st *State) *Term {
				v, ok := st.cells[ix]
				if !ok || v.T == nil {
					return True
				}
				return And(Le(IntLit(-1), v.T), Or(Lt(v.T, ln.T), Eq(v.T, IntLit(-1))))
			}})
		}
	}
	// auto: frame w.r.t. function entry for every heap array modified in the loop
	var hs []string
	for k := range mi.heaps {
		if !strings.HasPrefix(k, "ghost:") {
			hs = append(hs, k)
		}
	}
	sort.Strings(hs)
	for _, k := range hs {
		k := k
		out = append(out, invariant{text: "auto:frame:" + k, auto: true, at: func(st *State) *Term {
			return fc.frameFormula(k, initHeap(fc.p, k), st.H(fc.p, k), fc.entry.alloc, fc.frameLocs)
		}})
	}
	// loop-level frame (relative to the state at loop entry)
	if li.lc != nil && li.lc.ModifiesSet {
		env := fc.envFor(fr, entry, nil, true)
		fc.bindLoopVars(fr, li, entry, env)
		fc.topLoopEnv(li, env)
		var locs []ModLoc
		for _, m := range li.lc.Modifies {
			ls, err := elabModLoc(fc.p, m, env)
			if err != nil {
				panic(elabErr{fmt.Sprintf("%s:%d: loop %d modifies %s: %v", c.File, c.Line, li.ordinal, m, err)})
			}
			locs = append(locs, ls...)
		}
		for _, k := range hs {
			k := k
			before := entry.H(fc.p, k)
			out = append(out, invariant{text: "loopframe:" + k, auto: true, at: func(st *State) *Term {
				return fc.frameFormula(k, before, st.H(fc.p, k), entry.alloc, locs)
			}})
		}
	}
	// auto: allocation counter is monotone w.r.t. function entry
	if mi.allocs {
		out = append(out, invariant{text: "auto:alloc-monotone", auto: true, at: func(st *State) *Term {
			return Le(fc.entry.alloc, st.alloc)
		}})
	}
	return out
}

func (fc *FuncCtx) backEdge(fr *Frame, li *loopInfo, st *State, pos token.Pos) {
	if st.dead || st.pc == False {
		return
	}
	loopName := fmt.Sprintf("loop%d", li.ordinal)
	if li.stmt != nil {
		pos = li.stmt.Pos()
	}
	cells, mi := fc.modOfBlocks(fr, li.blocks)
	invs := fc.loopInvariants(fr, li, li.entry, mi, cells)
	for _, iv := range invs {
		fc.curTags = iv.tags
		fc.addSplit(fr, st, "inv-pres", loopName+":"+iv.text, iv.at(st), pos, "loop invariant is preserved by the body")
		fc.curTags = nil
	}
	if li.variant != nil {
		env := fc.envFor(fr, st, nil, true)
		fc.bindLoopVars(fr, li, st, env)
		fc.topLoopEnv(li, env)
		v, err := env.ElabTerm(li.lc.Decreases.Expr)
		if err != nil {
			panic(elabErr{fmt.Sprintf("decreases: %v", err)})
		}
		fc.addObl(fr, st, "decreases", loopName+":"+li.lc.Decreases.Text, And(Le(IntLit(0), li.variant), Lt(v.T, li.variant)), pos, "loop variant is non-negative and strictly decreases")
	}
}

func (fc *FuncCtx) execBlock(fr *Frame, b *ssa.BasicBlock, st *State, in map[*ssa.BasicBlock][]*State, inPred map[*ssa.BasicBlock][]*ssa.BasicBlock, rets *[]retPoint) {
	push := func(to *ssa.BasicBlock, es *State) {
		if li := fr.loops[to]; li != nil && isBackEdge(b, to) {
			fc.backEdge(fr, li, es, b.Instrs[len(b.Instrs)-1].Pos())
			return
		}
		in[to] = append(in[to], es)
		inPred[to] = append(inPred[to], b)
	}
	for _, ins := range b.Instrs {
		if st.dead {
			return
		}
		switch x := ins.(type) {
		case *ssa.Phi:
			continue
		case *ssa.If:
			c := fc.value(fr, x.Cond).T
			t := st.clone()
			t.assume(c)
			f := st.clone()
			f.assume(Not(c))
			push(b.Succs[0], t)
			push(b.Succs[1], f)
			return
		case *ssa.Jump:
			push(b.Succs[0], st)
			return
		case *ssa.Return:
			var vals []Val
			for _, r := range x.Results {
				vals = append(vals, fc.value(fr, r))
			}
			if fr.onReturn != nil {
				fr.onReturn(st.clone(), vals)
			}
			*rets = append(*rets, retPoint{st: st, vals: vals})
			return
		case *ssa.Panic:
			c := fr.contract
			if c != nil && c.MayPanic && fr.isTop {
				st.dead = true
				return
			}
			fc.addObl(fr, st, "panic", fc.srcOf(x), False, x.Pos(), "explicit panic is unreachable")
			st.dead = true
			return
		default:
			fc.execInstr(fr, st, ins)
		}
	}
}

func (fc *FuncCtx) srcOf(ins ssa.Instruction) string {
	// normalised source text of the expression/statement at the instruction, best effort
	pos := ins.Pos()
	if !pos.IsValid() {
		return strings.Fields(ins.String())[0]
	}
	// find smallest AST node starting at pos
	syn := ins.Parent().Syntax()
	var best ast.Node
	if syn != nil {
		ast.Inspect(syn, func(n ast.Node) bool {
			if n == nil {
				return false
			}
			if n.Pos() <= pos && pos < n.End() {
				if _, ok := n.(ast.Expr); ok {
					if n.Pos() == pos || best == nil {
						if best == nil || (n.End()-n.Pos()) < (best.End()-best.Pos()) && n.Pos() == pos {
							best = n
						}
					}
				}
				return true
			}
			return false
		})
	}
	if best != nil {
		s := fc.p.srcText(best.Pos(), best.End())
		if len(s) > 60 {
			s = s[:60]
		}
		return s
	}
	return fc.p.pos(pos)
}

// value: the symbolic value of an SSA value in the frame
func (fc *FuncCtx) value(fr *Frame, v ssa.Value) Val {
	switch x := v.(type) {
	case *ssa.Const:
		return fc.constVal(x)
	case *ssa.Global:
		return Val{LV: &LVal{Kind: lvGlobal, Global: x, Typ: x.Type().Underlying().(*types.Pointer).Elem()}}
	case *ssa.Function:
		return Val{Fn: &FnVal{Fn: x}}
	case *ssa.Builtin:
		unsupp("builtin %s used as a value", x.Name())
	}
	if r, ok := fr.regs[v]; ok {
		return r
	}
	unsupp("value %s (%T) not computed in %s", v.Name(), v, fr.fn)
	return Val{}
}

func (fc *FuncCtx) constVal(c *ssa.Const) Val {
	t := c.Type()
	if c.Value == nil {
		// zero / nil
		if _, ok := t.Underlying().(*types.Signature); ok {
			return Val{T: IntLit(0)}
		}
		if pt, ok := t.Underlying().(*types.Pointer); ok && sortOf(t) == nil {
			return Val{T: IntLit(0), LV: &LVal{Kind: lvField, Ref: IntLit(0), Heap: "P:" + typeKey(pt.Elem()), Typ: pt.Elem()}}
		}
		if _, ok := t.Underlying().(*types.Struct); ok {
			unsupp("struct zero constant")
		}
		return Val{T: zeroOf(t)}
	}
	return Val{T: constTerm(c.Value, t)}
}

type bigInt = big.Int

func bigFromString(s string) *bigInt { n, _ := new(bigInt).SetString(s, 10); return n }

var _ = constant.MakeInt64

// indexedElem: the element type addressed by an IndexAddr on a value of type t (slice or pointer to array)
func indexedElem(t types.Type) types.Type {
	switch u := t.Underlying().(type) {
	case *types.Slice:
		return u.Elem()
	case *types.Pointer:
		if at, ok := u.Elem().Underlying().(*types.Array); ok {
			return at.Elem()
		}
	}
	return nil
}
