package main

import (
	"fmt"
	"go/token"
	"go/types"
	"sort"
	"strings"

	"golang.org/x/tools/go/ssa"
)

func (fc *FuncCtx) newRef(st *State) *Term {
	r := Add(st.alloc, IntLit(1))
	st.alloc = r
	return r
}

func (fc *FuncCtx) zeroStruct(st *State, ref *Term, t types.Type) {
	s, ok := t.Underlying().(*types.Struct)
	if !ok {
		return
	}
	for i := 0; i < s.NumFields(); i++ {
		f := s.Field(i)
		if _, isStruct := f.Type().Underlying().(*types.Struct); isStruct {
			if !fc.p.inRepoType(f.Type()) {
				continue // opaque library struct (bytes.Buffer, sync.Mutex...)
			}
			fc.zeroStruct(st, ref, f.Type())
			continue
		}
		if sortOf(f.Type()) == nil {
			continue
		}
		if !fc.p.inRepoType(t) {
			continue
		}
		h := fc.p.fieldHeap(t, f)
		st.setH(h, Store(st.H(fc.p, h), ref, zeroOf(f.Type())))
	}
}

func (p *Program) inRepoType(t types.Type) bool {
	if nt, ok := t.(*types.Named); ok && nt.Obj() != nil && nt.Obj().Pkg() != nil {
		return strings.HasPrefix(nt.Obj().Pkg().Path(), p.module)
	}
	if _, ok := t.(*types.Struct); ok {
		return true
	}
	return false
}

// opaqueStruct: a named struct type declared outside the repository (bytes.Buffer, sync.Mutex...): its fields are
// never read by repository code; objects of it are known through ghost fields only.
func (p *Program) opaqueStruct(t types.Type) bool {
	if _, ok := t.Underlying().(*types.Struct); !ok {
		return false
	}
	nt, ok := t.(*types.Named)
	return ok && nt.Obj() != nil && nt.Obj().Pkg() != nil && !p.inRepoType(t)
}

func constArray(s *Sort, v *Term) *Term {
	return mk("(as const "+s.Name+")", s, v)
}

func (fc *FuncCtx) load(fr *Frame, st *State, lv *LVal, pos token.Pos) Val {
	switch lv.Kind {
	case lvCell:
		v, ok := st.cells[lv.Alloc]
		if !ok {
			unsupp("read of dead local %s", cellName(lv.Alloc))
		}
		return v
	case lvField:
		v := Select(st.H(fc.p, lv.Heap), lv.Ref)
		st.assume(typeInv(lv.Typ, v, st.alloc))
		return Val{T: v}
	case lvElem:
		if tb := fc.p.tableOfSlice(lv.Slice); tb != nil {
			fc.note("table " + tb.Name + " read as an immutable constant (checked syntactically: no writer, the slice does not escape)")
			return Val{T: tb.valTerm(lv.Idx)}
		}
		if t := fc.p.tableElem(lv.Slice, lv.Idx); t != nil {
			fc.note("one of several tables (merged result of an inlined callee) read as immutable constants")
			return Val{T: t}
		}
		v := At(Select(st.H(fc.p, lv.Heap), SBase(lv.Slice)), SOff(lv.Slice), lv.Idx)
		st.assume(typeInv(lv.Typ, v, st.alloc))
		return Val{T: v}
	case lvElemS:
		// element of a slice of flat structs: a tuple of the field values
		var tup []Val
		for _, f := range flatStructFields(lv.Typ) {
			v := At(Select(st.H(fc.p, fc.p.elemFieldHeap(lv.Typ, f)), SBase(lv.Slice)), SOff(lv.Slice), lv.Idx)
			st.assume(typeInv(f.Type(), v, st.alloc))
			tup = append(tup, Val{T: v})
		}
		return Val{Tup: tup}
	case lvGlobal:
		if tb := fc.p.tableOfGlobal(lv.Global); tb != nil {
			if tb.IsMap {
				fc.linkMapTable(st, tb)
				return Val{T: tb.Ref}
			}
			if tb.nested() {
				name := "G:" + lv.Global.Pkg.Pkg.Path() + "." + lv.Global.Name()
				fc.p.registerHeap(name, SSlice)
				v := st.H(fc.p, name)
				st.assume(typeInv(lv.Typ, v, st.alloc))
				fc.linkNestedTable(st, tb, v)
				return Val{T: v}
			}
			if !tb.IsMap {
				return Val{T: tb.SliceVal()}
			}
			return Val{T: tb.Ref}
		}
		s := sortOf(lv.Typ)
		if s == nil {
			unsupp("global %s of type %s", lv.Global.Name(), lv.Typ)
		}
		if cv := fc.p.constGlobal(lv.Global); cv != nil {
			fc.note("package variable " + lv.Global.Name() + " read as a constant (initialised with a constant, no writer in the repository)")
			return Val{T: cv}
		}
		name := "G:" + lv.Global.Pkg.Pkg.Path() + "." + lv.Global.Name()
		fc.p.registerHeap(name, s)
		v := st.H(fc.p, name)
		st.assume(typeInv(lv.Typ, v, st.alloc))
		return Val{T: v}
	}
	unsupp("load through unknown pointer")
	return Val{}
}

func (fc *FuncCtx) store(fr *Frame, st *State, lv *LVal, v Val, pos token.Pos) {
	switch lv.Kind {
	case lvCell:
		st.cells[lv.Alloc] = v
		return
	case lvElemS:
		flds := flatStructFields(lv.Typ)
		if len(v.Tup) != len(flds) {
			unsupp("store of a struct element without field values (%s)", fc.p.pos(pos))
		}
		for i, f := range flds {
			if v.Tup[i].T == nil {
				unsupp("store of a struct element with an unknown field %s (%s)", f.Name(), fc.p.pos(pos))
			}
			fc.store(fr, st, &LVal{Kind: lvElem, Heap: fc.p.elemFieldHeap(lv.Typ, f), Slice: lv.Slice, Idx: lv.Idx, Typ: f.Type()}, v.Tup[i], pos)
		}
		return
	}
	if v.T == nil {
		unsupp("store of a non-first-class value (%s)", fc.p.pos(pos))
	}
	switch lv.Kind {
	case lvField:
		h := st.H(fc.p, lv.Heap)
		_, el, _ := h.Sort.arrayParts()
		st.setH(lv.Heap, Store(h, lv.Ref, coerceT(v.T, el)))
	case lvElem:
		if tb := fc.p.tableOfSlice(lv.Slice); tb != nil {
			unsupp("store to an element of table %s", tb.Name)
		}
		m := st.H(fc.p, lv.Heap)
		row := Select(m, SBase(lv.Slice))
		_, el, _ := row.Sort.arrayParts()
		st.setH(lv.Heap, Store(m, SBase(lv.Slice), Store(row, Add(SOff(lv.Slice), lv.Idx), coerceT(v.T, el))))
	case lvGlobal:
		if tb := fc.p.tableOfGlobal(lv.Global); tb != nil {
			unsupp("store to table global %s", tb.Name)
		}
		s := sortOf(lv.Typ)
		if s == nil {
			unsupp("global %s of type %s", lv.Global.Name(), lv.Typ)
		}
		name := "G:" + lv.Global.Pkg.Pkg.Path() + "." + lv.Global.Name()
		fc.p.registerHeap(name, s)
		st.setH(name, coerceT(v.T, s))
	default:
		unsupp("store through unknown pointer")
	}
}

func coerceT(t *Term, s *Sort) *Term {
	if t.Sort == s {
		return t
	}
	if t.Sort == SInt && s == SReal {
		return ToReal(t)
	}
	unsupp("sort mismatch in store: %s vs %s", t.Sort.Name, s.Name)
	return nil
}

func (fc *FuncCtx) execInstr(fr *Frame, st *State, ins ssa.Instruction) {
	switch x := ins.(type) {
	case *ssa.DebugRef:
		return
	case *ssa.Alloc:
		et := x.Type().Underlying().(*types.Pointer).Elem()
		if isCellType(et) {
			if sortOf(et) != nil {
				st.cells[x] = Val{T: zeroOf(et)}
			} else {
				st.cells[x] = Val{}
			}
			fr.regs[x] = Val{LV: &LVal{Kind: lvCell, Alloc: x, Typ: et}}
			return
		}
		ref := fc.newRef(st)
		for _, g := range fc.p.ghostZero[typeKey(et)] {
			h := ghostFieldHeap(fc.p, g[0], false)
			var n int64
			fmt.Sscan(g[1], &n)
			st.setH(h, Store(st.H(fc.p, h), ref, IntLit(n)))
		}
		switch u := et.Underlying().(type) {
		case *types.Struct:
			fc.zeroStruct(st, ref, et)
		case *types.Array:
			if s := sortOf(u.Elem()); s != nil {
				h := fc.p.elemHeap(u.Elem())
				st.setH(h, Store(st.H(fc.p, h), ref, constArray(ArraySort(SInt, s), zeroOf(u.Elem()))))
			} else {
				fc.zeroStructRow(st, ref, u.Elem())
			}
		}
		fr.regs[x] = Val{T: ref}
	case *ssa.Store:
		addr := fc.value(fr, x.Addr)
		if cst, isC := x.Val.(*ssa.Const); isC && cst.Value == nil && addr.LV == nil && addr.T != nil {
			// *p = T{} : store of the zero value of a struct type (composite literal without the listed fields yet)
			if _, isStruct := cst.Type().Underlying().(*types.Struct); isStruct {
				fc.addObl(fr, st, "nil", fc.srcOf(x), Neq(addr.T, IntLit(0)), x.Pos(), "nil pointer dereference")
				fc.zeroStruct(st, addr.T, cst.Type())
				return
			}
		}
		val := fc.value(fr, x.Val)
		if addr.LV == nil {
			// store of a whole struct value (a tuple of its scalar fields) into a struct object: field by field
			if sty, ok := x.Val.Type().Underlying().(*types.Struct); ok && addr.T != nil && val.Tup != nil && len(val.Tup) == sty.NumFields() {
				fc.addObl(fr, st, "nil", fc.srcOf(x), Neq(addr.T, IntLit(0)), x.Pos(), "nil pointer dereference")
				for i := 0; i < sty.NumFields(); i++ {
					f := sty.Field(i)
					if val.Tup[i].T == nil {
						if sortOf(f.Type()) != nil {
							unsupp("store of a struct value with an unknown field %s at %s", f.Name(), fc.p.pos(x.Pos()))
						}
						continue
					}
					h := fc.p.fieldHeap(x.Val.Type(), f)
					hh := st.H(fc.p, h)
					_, el, _ := hh.Sort.arrayParts()
					st.setH(h, Store(hh, addr.T, coerceT(val.Tup[i].T, el)))
				}
				return
			}
			unsupp("store of aggregate value at %s", fc.p.pos(x.Pos()))
		}
		fc.store(fr, st, addr.LV, val, x.Pos())
	case *ssa.UnOp:
		fc.unop(fr, st, x)
	case *ssa.BinOp:
		fr.regs[x] = Val{T: fc.binop(fr, st, x)}
	case *ssa.FieldAddr:
		xv := fc.value(fr, x.X)
		if xv.LV != nil && xv.LV.Kind == lvElemS {
			f := xv.LV.Typ.Underlying().(*types.Struct).Field(x.Field)
			fr.regs[x] = Val{LV: &LVal{Kind: lvElem, Heap: fc.p.elemFieldHeap(xv.LV.Typ, f), Slice: xv.LV.Slice, Idx: xv.LV.Idx, Typ: f.Type()}}
			return
		}
		if xv.T == nil {
			unsupp("field address of non-reference at %s", fc.p.pos(x.Pos()))
		}
		stT := x.X.Type().Underlying().(*types.Pointer).Elem()
		f := stT.Underlying().(*types.Struct).Field(x.Field)
		fc.addObl(fr, st, "nil", fc.srcOf(x), Neq(xv.T, IntLit(0)), x.Pos(), "nil pointer dereference")
		st.assume(Neq(xv.T, IntLit(0)))
		if _, isStruct := f.Type().Underlying().(*types.Struct); isStruct {
			fr.regs[x] = Val{T: xv.T}
			return
		}
		if sortOf(f.Type()) == nil {
			// field with no SMT representation (e.g. *int, func): opaque location
			fr.regs[x] = Val{LV: &LVal{Kind: lvField, Ref: xv.T, Heap: "", Typ: f.Type()}}
			unsupp("field %s.%s of unsupported type %s", typeKey(stT), f.Name(), f.Type())
		}
		fr.regs[x] = Val{LV: &LVal{Kind: lvField, Ref: xv.T, Heap: fc.p.fieldHeap(stT, f), Typ: f.Type()}}
	case *ssa.IndexAddr:
		xv := fc.value(fr, x.X)
		iv := fc.value(fr, x.Index)
		var sl *Term
		var elT types.Type
		switch u := x.X.Type().Underlying().(type) {
		case *types.Slice:
			sl = xv.T
			elT = u.Elem()
		case *types.Pointer:
			at := u.Elem().Underlying().(*types.Array)
			sl = SliceMk(xv.T, IntLit(0), IntLit(at.Len()), IntLit(at.Len()))
			elT = at.Elem()
		}
		if sl == nil {
			unsupp("index address on %s", x.X.Type())
		}
		in := And(Le(IntLit(0), iv.T), Lt(iv.T, SLen(sl)))
		fc.addObl(fr, st, "index", fc.srcOf(x), in, x.Pos(), "index out of range")
		st.assume(in)
		if fc.p.opaqueStruct(elT) {
			// array of opaque library structs (bytes.Buffer...): the element objects of the array object b are
			// the objects b+1 .. b+cap (allocated as one block by make, see MakeSlice)
			fr.regs[x] = Val{T: Add(Add(SBase(sl), IntLit(1)), Add(SOff(sl), iv.T))}
			return
		}
		if sortOf(elT) == nil {
			if flatStructFields(elT) != nil {
				fr.regs[x] = Val{LV: &LVal{Kind: lvElemS, Slice: sl, Idx: iv.T, Typ: elT}}
				return
			}
			unsupp("element type %s", elT)
		}
		fr.regs[x] = Val{LV: &LVal{Kind: lvElem, Heap: fc.p.elemHeap(elT), Slice: sl, Idx: iv.T, Typ: elT}}
	case *ssa.Index:
		xv := fc.value(fr, x.X)
		iv := fc.value(fr, x.Index)
		if xv.T != nil && xv.T.Sort == SStr {
			in := And(Le(IntLit(0), iv.T), Lt(iv.T, App("str_len", SInt, xv.T)))
			fc.addObl(fr, st, "index", fc.srcOf(x), in, x.Pos(), "string index out of range")
			st.assume(in)
			v := App("str_at", SInt, xv.T, iv.T)
			st.assume(typeInv(tUint8, v, st.alloc))
			fr.regs[x] = Val{T: v}
			return
		}
		unsupp("index on value of type %s", x.X.Type())
	case *ssa.Lookup:
		fc.lookup(fr, st, x)
	case *ssa.Slice:
		fc.sliceOp(fr, st, x)
	case *ssa.MakeSlice:
		ln := fc.value(fr, x.Len).T
		cp := fc.value(fr, x.Cap).T
		ok := And(Le(IntLit(0), ln), Le(ln, cp))
		fc.addObl(fr, st, "makeslice", fc.srcOf(x), ok, x.Pos(), "make: length negative or larger than capacity")
		st.assume(ok)
		elT := x.Type().Underlying().(*types.Slice).Elem()
		if fc.contract != nil && fc.contract.MakeLimit {
			// opt-in (contract option `makelimit`): the runtime panics ("makeslice: len out of range") when
			// cap * sizeof(elem) exceeds maxAlloc = 2^48 bytes (linux/amd64); sizes that come from the input must be bounded first.
			if sz := types.SizesFor("gc", "amd64").Sizeof(elT); sz > 0 {
				lim := Le(Mul(IntLit(sz), cp), IntLit(1<<48))
				fc.addObl(fr, st, "makeslice-size", fc.srcOf(x), lim, x.Pos(), "make: cap * element size exceeds the allocation limit (2^48 bytes)")
				st.assume(lim)
			}
		}
		ref := fc.newRef(st)
		if s := sortOf(elT); s != nil {
			h := fc.p.elemHeap(elT)
			st.setH(h, Store(st.H(fc.p, h), ref, constArray(ArraySort(SInt, s), zeroOf(elT))))
		} else if fc.p.opaqueStruct(elT) {
			// one block of cap fresh element objects ref+1 .. ref+cap, each with the ghost fields of a zero value
			st.alloc = Add(ref, cp)
			for _, g := range fc.p.ghostZero[typeKey(elT)] {
				h := ghostFieldHeap(fc.p, g[0], false)
				var n int64
				fmt.Sscan(g[1], &n)
				oh := st.H(fc.p, h)
				nh := Fresh(heapVarName(h)+".blk", oh.Sort)
				fc.p.noteHeapVar(nh, h, st.alloc)
				k := BVar("bk", SInt)
				st.assume(Forall([]*Term{k}, Eq(Select(nh, k), Ite(And(Lt(ref, k), Le(k, Add(ref, cp))), IntLit(n), Select(oh, k))), []*Term{Select(nh, k)}))
				st.setH(h, nh)
			}
		} else {
			fc.zeroStructRow(st, ref, elT)
		}
		fr.regs[x] = Val{T: SliceMk(ref, IntLit(0), ln, cp)}
	case *ssa.MakeMap:
		mt := x.Type().Underlying().(*types.Map)
		d, _, l := fc.p.mapHeaps(mt)
		ref := fc.newRef(st)
		ks := sortOf(mt.Key())
		st.setH(d, Store(st.H(fc.p, d), ref, constArray(ArraySort(ks, SBool), False)))
		st.setH(l, Store(st.H(fc.p, l), ref, IntLit(0)))
		fr.regs[x] = Val{T: ref}
	case *ssa.MakeChan:
		ref := fc.newRef(st)
		fr.regs[x] = Val{T: ref}
	case *ssa.MapUpdate:
		m := fc.value(fr, x.Map).T
		k := fc.value(fr, x.Key).T
		v := fc.value(fr, x.Value)
		if v.T == nil {
			unsupp("map update with non-first-class value")
		}
		mt := x.Map.Type().Underlying().(*types.Map)
		d, vv, l := fc.p.mapHeaps(mt)
		fc.addObl(fr, st, "nilmap", fc.srcOf(x), Neq(m, IntLit(0)), x.Pos(), "assignment to entry in nil map")
		if tb := fc.p.tableOfRef(m); tb != nil {
			unsupp("update of table %s", tb.Name)
		}
		k = coerceT(k, sortOf(mt.Key()))
		hd, hv, hl := st.H(fc.p, d), st.H(fc.p, vv), st.H(fc.p, l)
		was := Select(Select(hd, m), k)
		st.setH(l, Store(hl, m, Add(Select(hl, m), Ite(was, IntLit(0), IntLit(1)))))
		st.setH(d, Store(hd, m, Store(Select(hd, m), k, True)))
		st.setH(vv, Store(hv, m, Store(Select(hv, m), k, coerceT(v.T, sortOf(mt.Elem())))))
	case *ssa.Field:
		sv := fc.value(fr, x.X)
		if sv.Tup == nil || x.Field >= len(sv.Tup) {
			unsupp("field of a struct value that is not tracked at %s", fc.p.pos(x.Pos()))
		}
		fr.regs[x] = sv.Tup[x.Field]
	case *ssa.Extract:
		t := fc.value(fr, x.Tuple)
		if t.Tup == nil || x.Index >= len(t.Tup) {
			unsupp("extract from non-tuple")
		}
		fr.regs[x] = t.Tup[x.Index]
	case *ssa.Convert:
		fc.convert(fr, st, x)
	case *ssa.ChangeType:
		fr.regs[x] = fc.value(fr, x.X)
	case *ssa.ChangeInterface:
		fr.regs[x] = fc.value(fr, x.X)
	case *ssa.MakeInterface:
		xv := fc.value(fr, x.X)
		if _, ok := x.X.Type().Underlying().(*types.Pointer); ok && xv.T != nil && xv.T.Sort == SInt {
			fr.regs[x] = Val{T: xv.T}
			return
		}
		v := Fresh("iface", SInt)
		st.assume(And(Lt(IntLit(0), v), Le(v, st.alloc)))
		if xv.T != nil {
			// remember what was boxed (used to model fmt.Sprintf("%d", n) as an injective function of n)
			if fc.p.boxed == nil {
				fc.p.boxed = map[*Term]boxedVal{}
			}
			fc.p.boxed[v] = boxedVal{xv.T, x.X.Type()}
		}
		fr.regs[x] = Val{T: v}
	case *ssa.TypeAssert:
		xv := fc.value(fr, x.X)
		if im := fc.p.implOf(x.X.Type()); im != nil {
			ok := false
			if types.Identical(im, x.AssertedType) {
				ok = true
			}
			if pt, isP := x.AssertedType.(*types.Pointer); isP && !ok {
				// *align asserted on a SeqBag etc.: accept when the asserted type implements the interface
				if it, isI := x.X.Type().Underlying().(*types.Interface); isI && types.Implements(pt, it) {
					unsupp("type assertion to %s on %s (dynamic type not tracked)", x.AssertedType, x.X.Type())
				}
			}
			if ok {
				if x.CommaOk {
					fr.regs[x] = Val{Tup: []Val{{T: xv.T}, {T: Neq(xv.T, IntLit(0))}}}
				} else {
					fc.addObl(fr, st, "typeassert", fc.srcOf(x), Neq(xv.T, IntLit(0)), x.Pos(), "type assertion on nil interface")
					fr.regs[x] = Val{T: xv.T}
				}
				return
			}
		}
		if it, isI := x.AssertedType.Underlying().(*types.Interface); isI {
			_ = it
			// interface-to-interface assertion: identity on the reference under the closed world assumption
			if x.CommaOk {
				fr.regs[x] = Val{Tup: []Val{{T: xv.T}, {T: Neq(xv.T, IntLit(0))}}}
			} else {
				fr.regs[x] = Val{T: xv.T}
			}
			return
		}
		unsupp("type assertion %s -> %s", x.X.Type(), x.AssertedType)
	case *ssa.MakeClosure:
		fn := x.Fn.(*ssa.Function)
		var bs []Val
		for _, b := range x.Bindings {
			bs = append(bs, fc.value(fr, b))
		}
		fr.regs[x] = Val{Fn: &FnVal{Fn: fn, Bindings: bs}}
	case *ssa.Call:
		fc.call(fr, st, x, &x.Call, x.Pos())
	case *ssa.Defer:
		if x.Block() != fr.fn.Blocks[0] {
			unsupp("defer outside the entry block")
		}
		fr.defers = append(fr.defers, x)
	case *ssa.RunDefers:
		for i := len(fr.defers) - 1; i >= 0; i-- {
			d := fr.defers[i]
			fc.call(fr, st, nil, &d.Call, d.Pos())
		}
	case *ssa.Go:
		fc.goStmt(fr, st, x)
	case *ssa.Send:
		fc.ghostAdd(st, "sent", 1)
		fc.chanInv(fr, st, x.Chan.Type().Underlying().(*types.Chan).Elem(), fc.value(fr, x.X), true, x.Pos())
	case *ssa.Range:
		fc.rangeInit(fr, st, x)
	case *ssa.Next:
		fc.rangeNext(fr, st, x)
	default:
		unsupp("instruction %T (%s) at %s", ins, ins, fc.p.pos(ins.Pos()))
	}
}

// constGlobal: the value of a package-level variable of basic type that is
// initialised with a constant in its package initialiser and never written
// elsewhere in the repository (syntactic scan); nil otherwise.
func (p *Program) constGlobal(g *ssa.Global) *Term {
	if p.constGlobals == nil {
		p.constGlobals = map[*ssa.Global]*Term{}
		written := map[*ssa.Global]int{}
		initVal := map[*ssa.Global]*ssa.Const{}
		scan := func(f *ssa.Function, isInit bool) {
			for _, b := range f.Blocks {
				for _, ins := range b.Instrs {
					if stt, ok := ins.(*ssa.Store); ok {
						if gg, ok := stt.Addr.(*ssa.Global); ok {
							if c, isC := stt.Val.(*ssa.Const); isC && isInit {
								initVal[gg] = c
								written[gg] += 0
							} else {
								written[gg]++
							}
						}
					}
				}
			}
		}
		for _, f := range p.funcs {
			scan(f, false)
		}
		for path, sp := range p.spkgs {
			if strings.HasPrefix(path, p.module) {
				if in := sp.Func("init"); in != nil {
					scan(in, true)
				}
			}
		}
		for gg, c := range initVal {
			if written[gg] == 0 && c.Value != nil {
				if _, ok := gg.Type().Underlying().(*types.Pointer).Elem().Underlying().(*types.Basic); ok {
					p.constGlobals[gg] = constTerm(c.Value, gg.Type().Underlying().(*types.Pointer).Elem())
				}
			}
		}
	}
	return p.constGlobals[g]
}

func (fc *FuncCtx) ghostAdd(st *State, name string, n int64) {
	cur, ok := st.ghost[name]
	if !ok {
		cur = Var("ghost."+name+"@0", SInt)
	}
	st.ghost[name] = Add(cur, IntLit(n))
}

func (fc *FuncCtx) unop(fr *Frame, st *State, x *ssa.UnOp) {
	switch x.Op {
	case token.MUL: // load
		if cst, ok := x.X.(*ssa.Const); ok && cst.Value == nil {
			fc.addObl(fr, st, "nil", fc.srcOf(x), False, x.Pos(), "nil pointer dereference")
			st.dead = true
			return
		}
		if ds, ok := x.X.(*ssa.Call); ok {
			if b, ok := ds.Call.Value.(*ssa.Builtin); ok && b.Name() == "ssa:deferstack" {
				fr.regs[x] = Val{}
				return
			}
		}
		addr := fc.value(fr, x.X)
		if addr.LV == nil {
			if sty, isStruct := x.Type().Underlying().(*types.Struct); isStruct {
				if addr.T == nil {
					unsupp("load of a struct value at %s", fc.p.pos(x.Pos()))
				}
				// a struct value is an immutable snapshot of the scalar fields (one tuple
				// component per field; fields of unsupported type carry no value). It can
				// only be handed to a callee with an assumed contract, which sees the
				// fields as <param>_<Field>.
				fc.addObl(fr, st, "nil", fc.srcOf(x), Neq(addr.T, IntLit(0)), x.Pos(), "nil pointer dereference")
				var tup []Val
				for i := 0; i < sty.NumFields(); i++ {
					f := sty.Field(i)
					if _, nested := f.Type().Underlying().(*types.Struct); nested || sortOf(f.Type()) == nil {
						tup = append(tup, Val{})
						continue
					}
					tup = append(tup, Val{T: Select(st.H(fc.p, fc.p.fieldHeap(x.Type(), f)), addr.T)})
				}
				fr.regs[x] = Val{Tup: tup}
				return
			}
			unsupp("load through non-lvalue at %s", fc.p.pos(x.Pos()))
		}
		if addr.LV.Kind == lvField && addr.T != nil {
			// opaque pointer to scalar (parameter of pointer type): nil check
			fc.addObl(fr, st, "nil", fc.srcOf(x), Neq(addr.LV.Ref, IntLit(0)), x.Pos(), "nil pointer dereference")
		}
		fr.regs[x] = fc.load(fr, st, addr.LV, x.Pos())
	case token.NOT:
		fr.regs[x] = Val{T: Not(fc.value(fr, x.X).T)}
	case token.SUB:
		v := fc.value(fr, x.X).T
		if v.Sort == SXReal {
			fr.regs[x] = Val{T: XNeg(v)}
			return
		}
		fr.regs[x] = Val{T: fc.wrapInt(Neg(v), x.Type())}
	case token.XOR:
		v := fc.value(fr, x.X).T
		if b, ok := x.Type().Underlying().(*types.Basic); ok && b.Kind() == types.Uint8 {
			fr.regs[x] = Val{T: Sub(IntLit(255), v)}
			return
		}
		fr.regs[x] = Val{T: Sub(IntLit(-1), v)}
	case token.ARROW:
		// channel receive: an arbitrary value of the element type; the ghost counter `recv` counts the
		// values actually received (a `v, ok := <-c` that reports ok == false — channel closed and
		// drained, as at the end of a `for range c` — receives nothing)
		elT := x.X.Type().Underlying().(*types.Chan).Elem()
		if !x.CommaOk {
			fc.ghostAdd(st, "recv", 1)
		}
		if x.CommaOk {
			v := fc.freshVal("recv", x.Type().(*types.Tuple).At(0).Type(), st)
			ok := Fresh("recvok", SBool)
			cur, has := st.ghost["recv"]
			if !has {
				cur = Var("ghost.recv@0", SInt)
			}
			st.ghost["recv"] = Add(cur, Ite(ok, IntLit(1), IntLit(0)))
			// the channel invariant holds for values actually received
			st2 := st.clone()
			st2.pc = True
			fc.chanInv(fr, st2, elT, v, false, x.Pos())
			st.assume(Implies(ok, st2.pc))
			fr.regs[x] = Val{Tup: []Val{v, {T: ok}}}
		} else {
			v := fc.freshVal("recv", x.Type(), st)
			fc.chanInv(fr, st, elT, v, false, x.Pos())
			fr.regs[x] = v
		}
	default:
		unsupp("unary operator %s", x.Op)
	}
}

func isUnsignedSmall(t types.Type) (int64, bool) {
	if b, ok := t.Underlying().(*types.Basic); ok {
		switch b.Kind() {
		case types.Uint8:
			return 256, true
		case types.Uint16:
			return 65536, true
		case types.Uint32:
			return 4294967296, true
		}
	}
	return 0, false
}

func (fc *FuncCtx) wrapInt(t *Term, typ types.Type) *Term {
	if t.Sort != SInt {
		return t
	}
	if m, ok := isUnsignedSmall(typ); ok {
		if t.Op == "int" {
			return EMod(t, IntLit(m))
		}
		return EMod(t, IntLit(m))
	}
	if fc.wrap {
		if b, ok := typ.Underlying().(*types.Basic); ok && (b.Kind() == types.Int || b.Kind() == types.Int64) {
			if t.Op == "int" {
				return t
			}
			return Sub(EMod(Add(t, two63), two64), two63)
		}
	}
	return t
}

func (fc *FuncCtx) binop(fr *Frame, st *State, x *ssa.BinOp) *Term {
	a, b := fc.value(fr, x.X).T, fc.value(fr, x.Y).T
	if a == nil || b == nil {
		unsupp("binary operation on non-first-class values at %s", fc.p.pos(x.Pos()))
	}
	xt := x.X.Type()
	isStr := a.Sort == SStr
	isFloat := a.Sort == SReal || b.Sort == SReal
	if a.Sort == SXReal || b.Sort == SXReal {
		switch x.Op {
		case token.ADD:
			return XAdd(a, b)
		case token.SUB:
			return XSub(a, b)
		case token.MUL:
			return XMul(a, b)
		case token.QUO:
			return XDiv(a, b)
		case token.EQL:
			return XEq(a, b)
		case token.NEQ:
			return Not(XEq(a, b))
		case token.LSS:
			return XCmp("<", a, b)
		case token.LEQ:
			return XCmp("<=", a, b)
		case token.GTR:
			return XCmp(">", a, b)
		case token.GEQ:
			return XCmp(">=", a, b)
		}
		unsupp("float operator %s", x.Op)
	}
	switch x.Op {
	case token.ADD:
		if isStr {
			r := App("str_cat", SStr, a, b)
			return r
		}
		return fc.wrapInt(Add(a, b), x.Type())
	case token.SUB:
		return fc.wrapInt(Sub(a, b), x.Type())
	case token.MUL:
		return fc.wrapInt(Mul(a, b), x.Type())
	case token.QUO:
		if isFloat {
			fc.addObl(fr, st, "fdiv", fc.srcOf(x), Neq(ToReal(b), RealLitStr("0")), x.Pos(), "float division by zero (model validity: result would be Inf/NaN)")
			return RDiv(a, b)
		}
		fc.addObl(fr, st, "divzero", fc.srcOf(x), Neq(b, IntLit(0)), x.Pos(), "integer division by zero")
		st.assume(Neq(b, IntLit(0)))
		return GoDiv(a, b)
	case token.REM:
		fc.addObl(fr, st, "divzero", fc.srcOf(x), Neq(b, IntLit(0)), x.Pos(), "integer division by zero")
		st.assume(Neq(b, IntLit(0)))
		return GoMod(a, b)
	case token.EQL, token.NEQ:
		var r *Term
		switch {
		case a.Sort == SSlice:
			// only comparison with nil is legal
			r = Eq(SBase(a), IntLit(0))
			if c, ok := x.X.(*ssa.Const); ok && c.Value == nil {
				r = Eq(SBase(b), IntLit(0))
			}
		default:
			if a.Sort != b.Sort {
				a, b, _ = numSort(a, b)
			}
			r = Eq(a, b)
		}
		if x.Op == token.NEQ {
			return Not(r)
		}
		return r
	case token.LSS, token.LEQ, token.GTR, token.GEQ:
		op := map[token.Token]string{token.LSS: "<", token.LEQ: "<=", token.GTR: ">", token.GEQ: ">="}[x.Op]
		if isStr {
			lt := App("str_lt", SBool, a, b)
			gt := App("str_lt", SBool, b, a)
			switch op {
			case "<":
				return lt
			case ">":
				return gt
			case "<=":
				return Not(gt)
			default:
				return Not(lt)
			}
		}
		return Cmp(op, a, b)
	case token.AND, token.OR, token.XOR, token.AND_NOT:
		if a.Sort == SBool {
			switch x.Op {
			case token.AND:
				return And(a, b)
			case token.OR:
				return Or(a, b)
			}
		}
		fn := map[token.Token]string{token.AND: "band8", token.OR: "bor8", token.XOR: "bxor8", token.AND_NOT: "bandnot8"}[x.Op]
		if bt, ok := xt.Underlying().(*types.Basic); !ok || bt.Kind() != types.Uint8 {
			fn = strings.Replace(fn, "8", "I", 1)
		}
		return App(fn, SInt, a, b)
	case token.SHL:
		if k, ok := b.isInt(); ok && k >= 0 && k < 62 {
			return fc.wrapInt(Mul(a, IntLit(1<<uint(k))), x.Type())
		}
		return fc.wrapInt(App("shlI", SInt, a, b), x.Type())
	case token.SHR:
		if k, ok := b.isInt(); ok && k >= 0 && k < 62 {
			return EDiv(a, IntLit(1<<uint(k)))
		}
		return App("shrI", SInt, a, b)
	}
	unsupp("binary operator %s", x.Op)
	return nil
}

func (fc *FuncCtx) lookup(fr *Frame, st *State, x *ssa.Lookup) {
	xv := fc.value(fr, x.X)
	kv := fc.value(fr, x.Index)
	if xv.T.Sort == SStr {
		in := And(Le(IntLit(0), kv.T), Lt(kv.T, App("str_len", SInt, xv.T)))
		fc.addObl(fr, st, "index", fc.srcOf(x), in, x.Pos(), "string index out of range")
		st.assume(in)
		v := App("str_at", SInt, xv.T, kv.T)
		st.assume(typeInv(tUint8, v, st.alloc))
		fr.regs[x] = Val{T: v}
		return
	}
	mt := x.X.Type().Underlying().(*types.Map)
	var dom, val *Term
	k := coerceT(kv.T, sortOf(mt.Key()))
	if tb := fc.p.tableOfRef(xv.T); tb != nil {
		dom = tb.domTerm(k)
		if sortOf(mt.Elem()) == SSlice {
			// nested table: the rows are constant arrays allocated before the function starts
			val = tb.subSlice(k)
		} else {
			val = tb.valTerm(k)
		}
		fc.note("table " + tb.Name + " read as an immutable constant (checked syntactically: no writer in the repository)")
	} else {
		d, vv, _ := fc.p.mapHeaps(mt)
		dom = Select(Select(st.H(fc.p, d), xv.T), k)
		raw := Select(Select(st.H(fc.p, vv), xv.T), k)
		st.assume(Implies(dom, typeInv(mt.Elem(), raw, st.alloc)))
		// nil map: every lookup misses
		dom = And(Neq(xv.T, IntLit(0)), dom)
		val = Ite(dom, raw, zeroOf(mt.Elem()))
	}
	if x.CommaOk {
		fr.regs[x] = Val{Tup: []Val{{T: val}, {T: dom}}}
	} else {
		fr.regs[x] = Val{T: val}
	}
}

func (fc *FuncCtx) sliceOp(fr *Frame, st *State, x *ssa.Slice) {
	xv := fc.value(fr, x.X)
	var lo, hi *Term
	if x.Low != nil {
		lo = fc.value(fr, x.Low).T
	} else {
		lo = IntLit(0)
	}
	switch u := x.X.Type().Underlying().(type) {
	case *types.Slice:
		s := xv.T
		if x.High != nil {
			hi = fc.value(fr, x.High).T
		} else {
			hi = SLen(s)
		}
		if x.Max != nil {
			unsupp("3-index slice")
		}
		ok := And(Le(IntLit(0), lo), Le(lo, hi), Le(hi, SCap(s)))
		fc.addObl(fr, st, "slice", fc.srcOf(x), ok, x.Pos(), "slice bounds out of range")
		st.assume(ok)
		// a nil slice sliced stays nil
		fr.regs[x] = Val{T: SliceMk(SBase(s), Add(SOff(s), lo), Sub(hi, lo), Sub(SCap(s), lo))}
	case *types.Basic: // string
		s := xv.T
		ln := App("str_len", SInt, s)
		if x.High != nil {
			hi = fc.value(fr, x.High).T
		} else {
			hi = ln
		}
		ok := And(Le(IntLit(0), lo), Le(lo, hi), Le(hi, ln))
		fc.addObl(fr, st, "slice", fc.srcOf(x), ok, x.Pos(), "string slice bounds out of range")
		st.assume(ok)
		fr.regs[x] = Val{T: App("str_sub", SStr, s, lo, hi)}
	case *types.Pointer:
		at, isArr := u.Elem().Underlying().(*types.Array)
		if !isArr {
			unsupp("slice of pointer to %s", u.Elem())
		}
		n := IntLit(at.Len())
		if x.High != nil {
			hi = fc.value(fr, x.High).T
		} else {
			hi = n
		}
		ok := And(Le(IntLit(0), lo), Le(lo, hi), Le(hi, n))
		fc.addObl(fr, st, "slice", fc.srcOf(x), ok, x.Pos(), "slice bounds out of range")
		st.assume(ok)
		fr.regs[x] = Val{T: SliceMk(xv.T, lo, Sub(hi, lo), Sub(n, lo))}
	default:
		unsupp("slice of %s", x.X.Type())
	}
}

func (fc *FuncCtx) convert(fr *Frame, st *State, x *ssa.Convert) {
	xv := fc.value(fr, x.X)
	from, to := x.X.Type().Underlying(), x.Type().Underlying()
	fb, fromBasic := from.(*types.Basic)
	tb, toBasic := to.(*types.Basic)
	switch {
	case fromBasic && toBasic:
		switch {
		case fb.Info()&types.IsInteger != 0 && tb.Info()&types.IsInteger != 0:
			v := xv.T
			if m, ok := isUnsignedSmall(x.Type()); ok {
				// skip the mod when the source type already fits
				if fm, fok := isUnsignedSmall(x.X.Type()); !(fok && fm <= m) {
					v = EMod(v, IntLit(m))
				}
			} else if tb.Kind() == types.Int32 && fb.Kind() == types.Uint8 {
				// rune(byte): identity
			} else if tb.Kind() == types.Int8 || tb.Kind() == types.Int16 || tb.Kind() == types.Int32 {
				if fm, fok := isUnsignedSmall(x.X.Type()); !(fok && fm <= 65536 && tb.Kind() == types.Int32) {
					fc.note("narrowing integer conversion to " + tb.Name() + " treated as value-preserving (range obligation emitted)")
					lo, hi := int64(-2147483648), int64(2147483647)
					if tb.Kind() == types.Int8 {
						lo, hi = -128, 127
					} else if tb.Kind() == types.Int16 {
						lo, hi = -32768, 32767
					}
					fc.addObl(fr, st, "convrange", fc.srcOf(x), And(Le(IntLit(lo), v), Le(v, IntLit(hi))), x.Pos(), "narrowing conversion keeps the value")
				}
			} else if tb.Kind() == types.Uint || tb.Kind() == types.Uint64 {
				fc.addObl(fr, st, "convrange", fc.srcOf(x), Le(IntLit(0), v), x.Pos(), "conversion of a negative value to unsigned")
			}
			fr.regs[x] = Val{T: v}
		case fb.Info()&types.IsInteger != 0 && tb.Info()&types.IsFloat != 0:
			if floatSort == SXReal {
				fr.regs[x] = Val{T: XFin(ToReal(xv.T))}
				return
			}
			fr.regs[x] = Val{T: ToReal(xv.T)}
		case fb.Info()&types.IsFloat != 0 && tb.Info()&types.IsInteger != 0:
			r := xv.T
			if r.Sort == SXReal {
				fc.addObl(fr, st, "fdomain", "float to int conversion of a finite value", XIsFin(r), x.Pos(), "conversion of NaN or an infinity to an integer")
				r = XVal(r)
			}
			tr := Ite(Ge(r, RealLitStr("0")), mk("to_int", SInt, r), Neg(mk("to_int", SInt, Neg(r))))
			if len(r.Args) > 0 {
				// name the result (definitional extension): keeps the usually nonlinear real term out of
				// every later index bound and quantifier guard
				c := Fresh("f2i", SInt)
				st.assume(Eq(c, tr))
				tr = c
			}
			fr.regs[x] = Val{T: tr}
		case fb.Info()&types.IsFloat != 0 && tb.Info()&types.IsFloat != 0:
			fr.regs[x] = xv
		case fb.Info()&types.IsInteger != 0 && tb.Info()&types.IsString != 0:
			fr.regs[x] = Val{T: App("str_chr", SStr, xv.T)}
		case fb.Info()&types.IsString != 0 && tb.Info()&types.IsString != 0:
			fr.regs[x] = xv
		default:
			unsupp("conversion %s -> %s", x.X.Type(), x.Type())
		}
	case fromBasic && fb.Info()&types.IsString != 0:
		if sl, ok := to.(*types.Slice); ok {
			if eb, ok := sl.Elem().Underlying().(*types.Basic); ok && eb.Kind() == types.Uint8 {
				ref := fc.newRef(st)
				h := fc.p.elemHeap(sl.Elem())
				st.setH(h, Store(st.H(fc.p, h), ref, App("bytes_of", ArraySort(SInt, SInt), xv.T)))
				n := App("str_len", SInt, xv.T)
				fr.regs[x] = Val{T: SliceMk(ref, IntLit(0), n, n)}
				return
			}
			if eb, ok := sl.Elem().Underlying().(*types.Basic); ok && eb.Kind() == types.Int32 {
				// []rune(s): a fresh slice of k runes, k unknown with ceil(len(s)/4) <= k <= len(s)
				// (a rune takes 1..4 bytes, every invalid byte decodes to one rune); contents unconstrained code points.
				ref := fc.newRef(st)
				h := fc.p.elemHeap(sl.Elem())
				arr := Fresh("runes", ArraySort(SInt, SInt))
				st.setH(h, Store(st.H(fc.p, h), ref, arr))
				n := App("str_len", SInt, xv.T)
				k := Fresh("runecount", SInt)
				st.assume(And(Le(IntLit(0), k), Le(k, n), Le(n, Mul(IntLit(4), k))))
				fr.regs[x] = Val{T: SliceMk(ref, IntLit(0), k, k)}
				return
			}
		}
		unsupp("conversion %s -> %s", x.X.Type(), x.Type())
	case toBasic && tb.Info()&types.IsString != 0:
		if sl, ok := from.(*types.Slice); ok {
			if eb, ok := sl.Elem().Underlying().(*types.Basic); ok && eb.Kind() == types.Uint8 {
				h := fc.p.elemHeap(sl.Elem())
				fr.regs[x] = Val{T: App("str_of", SStr, Select(st.H(fc.p, h), SBase(xv.T)), SOff(xv.T), SLen(xv.T))}
				return
			}
		}
		unsupp("conversion %s -> %s", x.X.Type(), x.Type())
	default:
		// pointer / named conversions: identity
		if xv.T != nil && sortOf(x.Type()) == xv.T.Sort {
			fr.regs[x] = xv
			return
		}
		unsupp("conversion %s -> %s", x.X.Type(), x.Type())
	}
}

// ---- map / string range ----

type rangeState struct {
	isMap bool
	m     *Term
	mt    *types.Map
	str   *Term
	iter  *ssa.Alloc
}

func (fc *FuncCtx) rangeInit(fr *Frame, st *State, x *ssa.Range) {
	xv := fc.value(fr, x.X)
	switch u := x.X.Type().Underlying().(type) {
	case *types.Map:
		// the iterator carries a ghost set of visited keys: each Next returns an
		// arbitrary key of the domain that has not been visited yet (arbitrary
		// order), or ok=false once every key of the domain has been visited.
		h := iterHeapName(x)
		ks := sortOf(u.Key())
		fc.p.registerHeap(h, ArraySort(ks, SBool))
		st.setH(h, constArray(ArraySort(ks, SBool), False))
		// ghost counter: number of keys produced so far (= cardinality of the visited set)
		fc.p.registerHeap(h+"#n", SInt)
		st.setH(h+"#n", IntLit(0))
		fr.regs[x] = Val{T: xv.T, Tup: nil, LV: &LVal{Kind: -1, Typ: u, Heap: h}}
		if fc.p.iterSumHeaps(x) && fc.p.tableOfRef(xv.T) == nil {
			// ghost sum of the values of the visited keys (int-valued maps): the rows of the map as at the
			// start of the iteration are recorded, the sum runs over them
			d, vv, _ := fc.p.mapHeaps(u)
			st.setH(h+"#d0", Select(st.H(fc.p, d), xv.T))
			st.setH(h+"#v0", Select(st.H(fc.p, vv), xv.T))
			st.setH(h+"#sum", IntLit(0))
		}
	case *types.Basic:
		fr.regs[x] = Val{T: xv.T, LV: &LVal{Kind: -2, Typ: u}}
	default:
		unsupp("range over %s", x.X.Type())
	}
}

// chanInv: channel invariants of the function under contract for channels of element type elT:
// proved at a send (prove=true), assumed at a receive.
func (fc *FuncCtx) chanInv(fr *Frame, st *State, elT types.Type, v Val, prove bool, pos token.Pos) {
	if fc.contract == nil {
		return
	}
	for _, ci := range fc.contract.ChanInvs {
		if ci.Name != typeKeyShort(elT) && ci.Name != typeKey(elT) {
			continue
		}
		env := fc.envFor(fr, st, nil, true)
		if v.T != nil {
			env.vars["elem"] = SVal{T: v.T, Typ: elT}
		}
		if sty, ok := elT.Underlying().(*types.Struct); ok && v.Tup != nil {
			for k, fv := range v.Tup {
				if fv.T != nil && k < sty.NumFields() {
					env.vars["elem_"+sty.Field(k).Name()] = SVal{T: fv.T, Typ: sty.Field(k).Type()}
				}
			}
		}
		t, err := env.ElabBool(ci.Expr)
		if err != nil {
			panic(elabErr{fmt.Sprintf("%s:%d: chaninv: %v", fc.contract.File, ci.Line, err)})
		}
		if prove {
			fc.addSplit(fr, st, "chaninv", ci.Name+":"+ci.Text, t, pos, "channel invariant holds for the value sent")
		} else {
			st.assume(t)
		}
	}
}

// iterSumHeaps registers the ghost heaps of the visited-sum of a map iteration (maps with integer
// values only): <iter>#sum (Int), <iter>#d0 / <iter>#v0 (domain and value rows at the start).
func (p *Program) iterSumHeaps(x *ssa.Range) bool {
	mt, ok := x.X.Type().Underlying().(*types.Map)
	if !ok || sortOf(mt.Elem()) != SInt || sortOf(mt.Key()) == nil {
		return false
	}
	h := iterHeapName(x)
	ks := sortOf(mt.Key())
	p.registerHeap(h+"#sum", SInt)
	p.registerHeap(h+"#d0", ArraySort(ks, SBool))
	p.registerHeap(h+"#v0", ArraySort(ks, SInt))
	return true
}

// MapSum: the sum of the values of an integer-valued map given by its domain and value rows
// (uninterpreted; axioms: empty domain, update of one key -- see extraDecls)
func MapSum(dom, val *Term) *Term {
	ks, _, _ := dom.Sort.arrayParts()
	return mk("msum."+ks.Name, SInt, dom, val)
}

func iterHeapName(x *ssa.Range) string {
	return "IT:" + funcKey(x.Parent()) + ":" + x.Name()
}

func (fc *FuncCtx) rangeNext(fr *Frame, st *State, x *ssa.Next) {
	it := fc.value(fr, x.Iter)
	if it.LV == nil {
		unsupp("next on unknown iterator")
	}
	ok := Fresh("next.ok", SBool)
	if x.IsString {
		// index/rune pairs of a string: arbitrary increasing index; rune opaque
		idx := Fresh("next.idx", SInt)
		r := Fresh("next.rune", SInt)
		st.assume(Implies(ok, And(Le(IntLit(0), idx), Lt(idx, App("str_len", SInt, it.T)))))
		st.assume(And(Le(IntLit(0), r), Le(r, IntLit(1114111))))
		// ASCII bytes decode to themselves
		st.assume(Implies(And(ok, Lt(App("str_at", SInt, it.T, idx), IntLit(128))), Eq(r, App("str_at", SInt, it.T, idx))))
		fr.regs[x] = Val{Tup: []Val{{T: ok}, {T: idx}, {T: r}}}
		fc.note("string range: termination of the iteration and index order are not modelled (each step yields an arbitrary valid index)")
		return
	}
	mt := it.LV.Typ.(*types.Map)
	d, vv, _ := fc.p.mapHeaps(mt)
	k := Fresh("next.key", sortOf(mt.Key()))
	var dom, val *Term
	if tb := fc.p.tableOfRef(it.T); tb != nil {
		dom = tb.domTerm(k)
		if sortOf(mt.Elem()) == SSlice {
			unsupp("range over nested table")
		}
		val = tb.valTerm(k)
	} else {
		dom = Select(Select(st.H(fc.p, d), it.T), k)
		val = Select(Select(st.H(fc.p, vv), it.T), k)
		st.assume(Implies(ok, typeInv(mt.Elem(), val, st.alloc)))
	}
	st.assume(typeInv(mt.Key(), k, st.alloc))
	st.assume(Implies(ok, And(Neq(it.T, IntLit(0)), dom)))
	if it.LV.Heap != "" {
		vis := st.H(fc.p, it.LV.Heap)
		st.assume(Implies(ok, Not(Select(vis, k))))
		// exhausted: every key of the domain has been visited
		kk := BVar("mk", sortOf(mt.Key()))
		var domk *Term
		if tb := fc.p.tableOfRef(it.T); tb != nil {
			domk = tb.domTerm(kk)
		} else {
			domk = And(Neq(it.T, IntLit(0)), Select(Select(st.H(fc.p, d), it.T), kk))
		}
		st.assume(Implies(Not(ok), Forall([]*Term{kk}, Implies(domk, Select(vis, kk)))))
		st.setH(it.LV.Heap, Ite(ok, Store(vis, k, True), vis))
		if fc.p.tableOfRef(it.T) == nil {
			// cardinalities: cnt = |visited| (by construction of the ghost code) and len(m) = |dom(m)|. When every
			// visited key is (still) a key of the map, a further key outside the visited set gives cnt < len(m),
			// and an exhausted iteration (dom included in visited, above) gives cnt == len(m).
			_, _, lh := fc.p.mapHeaps(mt)
			cnt := st.H(fc.p, it.LV.Heap+"#n")
			ln := Select(st.H(fc.p, lh), it.T)
			k2 := BVar("mk", sortOf(mt.Key()))
			sub := Forall([]*Term{k2}, Implies(Select(vis, k2), Select(Select(st.H(fc.p, d), it.T), k2)))
			st.assume(Le(IntLit(0), cnt))
			st.assume(Implies(And(Neq(it.T, IntLit(0)), sub), And(Implies(ok, Lt(cnt, ln)), Implies(Not(ok), Eq(cnt, ln)))))
			st.setH(it.LV.Heap+"#n", Ite(ok, Add(cnt, IntLit(1)), cnt))
		}
		if _, has := st.heap[it.LV.Heap+"#sum"]; has && fc.p.tableOfRef(it.T) == nil {
			// visited-sum: each visited key of the initial domain adds its initial value; once the
			// iteration is exhausted over an unchanged domain every key has been visited exactly once,
			// so the sum is the sum of the map (as at the start of the iteration)
			d0, v0 := st.H(fc.p, it.LV.Heap+"#d0"), st.H(fc.p, it.LV.Heap+"#v0")
			sum := st.H(fc.p, it.LV.Heap+"#sum")
			st.assume(Implies(And(Not(ok), Eq(Select(st.H(fc.p, d), it.T), d0)), Eq(sum, MapSum(d0, v0))))
			st.setH(it.LV.Heap+"#sum", Ite(ok, Add(sum, Ite(Select(d0, k), Select(v0, k), IntLit(0))), sum))
		}
	}
	fr.regs[x] = Val{Tup: []Val{{T: ok}, {T: k}, {T: val}}}
	fc.note("map range: keys are visited in an arbitrary order, each key of the domain exactly once (ghost visited set); the map must not be updated inside the loop")
}

func (fc *FuncCtx) goStmt(fr *Frame, st *State, x *ssa.Go) {
	// The spawned function is verified separately as a sequential function (if it has a contract).
	// For THIS frame its effects are arbitrary from the spawn on: every captured local it assigns and every
	// heap array it may write is given an arbitrary value here, and again at every later sync.WaitGroup.Wait
	// of the frame (the goroutine may still be running in between; interleavings are not modelled).
	fc.note(fmt.Sprintf("go statement at %s: the goroutine body is checked as a separate sequential function; for the spawning function its effects are arbitrary (havocked at the spawn and at every Wait); interleavings are not modelled", fc.p.pos(x.Pos())))
	fc.ghostAdd(st, "spawned", 1)
	if mc, ok := x.Call.Value.(*ssa.MakeClosure); ok {
		fr.spawned = append(fr.spawned, mc)
		fc.goInvariant(fr, st, mc, x.Pos(), false, "go statement")
		fc.havocClosure(fr, st, mc, "effects of the goroutine started at "+fc.p.pos(x.Pos())+" are havocked")
		fc.goInvariant(fr, st, mc, x.Pos(), true, "go statement")
	} else if fr.isTop && fc.contract != nil && len(fc.contract.GoInvs) > 0 {
		unsupp("goinv: the go statement at %s does not start a function literal", fc.p.pos(x.Pos()))
	} else if callee := x.Call.StaticCallee(); callee != nil {
		mi := fc.modOfFunc(callee, 1)
		var hs []string
		for k := range mi.heaps {
			hs = append(hs, k)
		}
		sort.Strings(hs)
		for _, k := range hs {
			if strings.HasPrefix(k, "ghost:") || strings.HasPrefix(k, "FV:") {
				continue
			}
			nh := Fresh(heapVarName(k)+".go", heapSort(k, fc.p))
			fc.p.noteHeapVar(nh, k, st.alloc)
			st.setH(k, nh)
		}
	} else {
		unsupp("go statement with a dynamic callee at %s", fc.p.pos(x.Pos()))
	}
}

// rehavocSpawned: at a synchronisation point the goroutines started by this frame may have run further
func (fc *FuncCtx) rehavocSpawned(fr *Frame, st *State, pos token.Pos) {
	fc.goInvariant(fr, st, nil, pos, false, "WaitGroup.Wait")
	for _, mc := range spawnedLiterals(fr.fn) {
		fc.havocClosure(fr, st, mc, "effects of the goroutines started by this function are havocked again at each WaitGroup.Wait")
	}
	fc.goInvariant(fr, st, nil, pos, true, "WaitGroup.Wait")
}

// spawnedLiterals: every function literal started by a `go` statement anywhere in fn, in source order. Static on purpose:
// the executor may reach a Wait through the exit edge of a loop before it has executed the `go` statement in the body
// of that loop, so a list filled while executing would miss the goroutines started in loops.
func spawnedLiterals(fn *ssa.Function) []*ssa.MakeClosure {
	var out []*ssa.MakeClosure
	for _, b := range fn.Blocks {
		for _, ins := range b.Instrs {
			if g, ok := ins.(*ssa.Go); ok {
				if mc, ok := g.Call.Value.(*ssa.MakeClosure); ok {
					out = append(out, mc)
				}
			}
		}
	}
	sort.Slice(out, func(i, j int) bool { return out[i].Pos() < out[j].Pos() })
	return out
}

// goInvariant implements the `goinv E` clauses of the function under contract (rely/guarantee with ONE shared
// invariant). Abstraction (the one already used for the goroutine bodies): every goroutine body runs as an atomic
// sequential step at some point between its `go` statement and the WaitGroup.Wait that joins it.
//   - after == false (before the effects of the goroutines are havocked, at a `go` statement or at a Wait): every
//     clause is an OBLIGATION in the current state of the spawning function;
//   - the function literal started (mc != nil) must carry exactly the goinv clauses as `preserves` clauses (same
//     text), must have no other precondition and must be proved, not trusted: its own verification then shows that one
//     run of its body, started in ANY state satisfying the invariant, re-establishes it;
//   - after == true (after the havoc): every clause is ASSUMED.
// Hence the invariant holds when the first goroutine is started, is kept by every atomic step of every goroutine
// (each literal is checked at its own go statement, so all of them preserve all clauses) and by the spawning function
// at each of its synchronisation points: it holds after the join. A clause that names a local that is not declared yet
// at a go statement is neither proved nor assumed there (it is not a statement about that state; the literals started
// earlier still have to preserve it); at a Wait every clause must be in scope.
func (fc *FuncCtx) goInvariant(fr *Frame, st *State, mc *ssa.MakeClosure, pos token.Pos, after bool, where string) {
	if !fr.isTop || fc.contract == nil || len(fc.contract.GoInvs) == 0 || st.dead {
		return
	}
	c := fc.contract
	norm := func(s string) string { return strings.Join(strings.Fields(s), " ") }
	if mc != nil && !after {
		cf := mc.Fn.(*ssa.Function)
		lc := fc.p.contractOf(cf)
		if lc == nil {
			unsupp("goinv: the function literal %s started at %s has no contract", funcKey(cf), fc.p.pos(pos))
		}
		if lc.Trusted {
			unsupp("goinv: the contract of the function literal %s must be proved, not trusted", funcKey(cf))
		}
		if len(lc.Requires) != len(lc.Preserves) {
			unsupp("goinv: the function literal %s started at %s has a precondition that is not a `preserves` clause (nothing establishes it when the goroutine runs)", funcKey(cf), fc.p.pos(pos))
		}
		have := map[string]bool{}
		for _, pc := range lc.Preserves {
			have[norm(pc.Text)] = true
		}
		want := map[string]bool{}
		for _, gc := range c.GoInvs {
			want[norm(gc.Text)] = true
			if !have[norm(gc.Text)] {
				unsupp("goinv: the function literal %s started at %s lacks the clause `preserves %s`", funcKey(cf), fc.p.pos(pos), gc.Text)
			}
		}
		for _, pc := range lc.Preserves {
			if !want[norm(pc.Text)] {
				unsupp("goinv: `preserves %s` of the function literal %s is not a goinv clause of %s (it is assumed at the entry of the goroutine: the spawning function must establish it)", pc.Text, funcKey(cf), funcKey(fr.fn))
			}
		}
	}
	for _, gc := range c.GoInvs {
		env := fc.envFor(fr, st, nil, true)
		t, err := env.ElabBool(gc.Expr)
		if err != nil {
			if mc != nil && strings.Contains(err.Error(), "unknown identifier") {
				if !after {
					fc.note(fmt.Sprintf("goinv clause `%s` is not in scope at the go statement at %s (%v): neither proved nor assumed there", gc.Text, fc.p.pos(pos), err))
				}
				continue
			}
			panic(elabErr{fmt.Sprintf("%s:%d: goinv at %s: %v", c.File, gc.Line, fc.p.pos(pos), err)})
		}
		if after {
			st.assume(t)
		} else {
			fc.addSplit(fr, st, "goinv", gc.Text, t, pos, "shared invariant of the goroutines holds at this "+where+" (before their effects are havocked)")
		}
	}
	if after {
		fc.note("goinv: the shared invariant is assumed after the havoc at the " + where + " at " + fc.p.pos(pos) + " (proved before it; preserved by every goroutine body, see the `preserves` clauses of the function literals)")
	}
}

// zeroStructRow: the fresh array `ref` of flat structs holds zero values (one element heap per field)
func (fc *FuncCtx) zeroStructRow(st *State, ref *Term, elT types.Type) {
	for _, f := range flatStructFields(elT) {
		h := fc.p.elemFieldHeap(elT, f)
		st.setH(h, Store(st.H(fc.p, h), ref, constArray(ArraySort(SInt, sortOf(f.Type())), zeroOf(f.Type()))))
	}
}
