package main

// Package-level constant tables (map / slice composite literals) extracted
// from the typed AST on every run.

import (
	"fmt"
	"go/ast"
	"go/constant"
	"go/token"
	"go/types"
	"sort"
	"strings"

	"golang.org/x/tools/go/ssa"
)

type TableEntry struct {
	K   *Term   // key (maps) or nil (slices: index = position)
	V   *Term   // scalar value, or nil when nested
	Sub []*Term // nested slice literal of scalars
	// the same nested literal as constants (turned into terms at the point of
	// use: the sort of a float depends on the float model of the function)
	SubC []constant.Value
	Src  string
}

type Table struct {
	Key     string // pkgpath.name
	Name    string
	Global  *ssa.Global
	Typ     types.Type
	Ref     *Term
	Entries []TableEntry
	IsMap   bool
	Props   []string
	Pos     string
	defined bool
	valSort *Sort
}

func (p *Program) tableOfRef(t *Term) *Table {
	for _, tb := range p.tables {
		if tb.Ref == t {
			return tb
		}
	}
	return nil
}

func (p *Program) tableOfGlobal(g *ssa.Global) *Table {
	if g == nil || g.Pkg == nil {
		return nil
	}
	return p.tables[g.Pkg.Pkg.Path()+"."+g.Name()]
}

func (p *Program) loadTable(td *TableDecl) error {
	// a table declared again (by another contract file, for another property): the properties add up
	if old := p.tables[td.Pkg+"."+td.Global]; old != nil {
		for _, pr := range td.Props {
			if !hasStr(old.Props, pr) {
				old.Props = append(old.Props, pr)
			}
		}
		return nil
	}
	pk := p.pkgs[td.Pkg]
	if pk == nil {
		return fmt.Errorf("table %s: package %s not loaded", td.Global, td.Pkg)
	}
	obj, ok := pk.Types.Scope().Lookup(td.Global).(*types.Var)
	if !ok {
		return fmt.Errorf("table %s: no such package-level variable in %s", td.Global, td.Pkg)
	}
	var lit *ast.CompositeLit
	for _, f := range pk.Syntax {
		for _, d := range f.Decls {
			gd, ok := d.(*ast.GenDecl)
			if !ok {
				continue
			}
			for _, s := range gd.Specs {
				vs, ok := s.(*ast.ValueSpec)
				if !ok {
					continue
				}
				for i, n := range vs.Names {
					if pk.TypesInfo.Defs[n] == obj && i < len(vs.Values) {
						lit, _ = vs.Values[i].(*ast.CompositeLit)
					}
				}
			}
		}
	}
	if lit == nil {
		return fmt.Errorf("table %s: initialiser is not a composite literal", td.Global)
	}
	tb := &Table{Key: td.Pkg + "." + td.Global, Name: td.Global, Typ: obj.Type(), Props: td.Props, Pos: p.pos(obj.Pos())}
	tb.Ref = Var("tbl."+td.Global, SInt)
	if sp := p.spkgs[td.Pkg]; sp != nil {
		tb.Global, _ = sp.Members[td.Global].(*ssa.Global)
	}
	constOf := func(e ast.Expr, typ types.Type) (*Term, error) {
		tv, ok := pk.TypesInfo.Types[e]
		if !ok || tv.Value == nil {
			return nil, fmt.Errorf("table %s: non-constant element %s", td.Global, p.srcText(e.Pos(), e.End()))
		}
		return constTerm(tv.Value, typ), nil
	}
	var elemT, keyT types.Type
	switch u := obj.Type().Underlying().(type) {
	case *types.Map:
		tb.IsMap = true
		keyT, elemT = u.Key(), u.Elem()
	case *types.Slice:
		elemT = u.Elem()
	default:
		return fmt.Errorf("table %s: unsupported type %s", td.Global, obj.Type())
	}
	for _, el := range lit.Elts {
		var ent TableEntry
		val := el
		if kv, ok := el.(*ast.KeyValueExpr); ok {
			if !tb.IsMap {
				return fmt.Errorf("table %s: keyed slice literal unsupported", td.Global)
			}
			k, err := constOf(kv.Key, keyT)
			if err != nil {
				return err
			}
			ent.K = k
			val = kv.Value
		}
		ent.Src = p.srcText(el.Pos(), el.End())
		if sub, ok := val.(*ast.CompositeLit); ok {
			st, ok := elemT.Underlying().(*types.Slice)
			if !ok {
				return fmt.Errorf("table %s: nested literal of non-slice type", td.Global)
			}
			ent.Sub = []*Term{}
			for _, se := range sub.Elts {
				v, err := constOf(se, st.Elem())
				if err != nil {
					return err
				}
				ent.Sub = append(ent.Sub, v)
				ent.SubC = append(ent.SubC, pk.TypesInfo.Types[se].Value)
			}
		} else {
			v, err := constOf(val, elemT)
			if err != nil {
				return err
			}
			ent.V = v
		}
		tb.Entries = append(tb.Entries, ent)
	}
	p.tables[tb.Key] = tb
	return nil
}

// domTerm: key membership for map tables, index range for slice tables
func (tb *Table) domTerm(k *Term) *Term {
	tb.define()
	return App(tb.sym("dom"), SBool, k)
}

// valTerm: value at key (zero value when absent)
func (tb *Table) valTerm(k *Term) *Term {
	tb.define()
	if tb.valSort == nil {
		unsupp("table %s: nested value used as a scalar", tb.Name)
	}
	return App(tb.sym("val"), tb.valSort, k)
}

func (tb *Table) sym(part string) string { return "tbl." + tb.Name + "." + part }

func (tb *Table) define() {
	if tb.defined {
		return
	}
	tb.defined = true
	var elemT, keyT types.Type
	switch u := tb.Typ.Underlying().(type) {
	case *types.Map:
		elemT, keyT = u.Elem(), u.Key()
	case *types.Slice:
		elemT, keyT = u.Elem(), tInt
	}
	ks := sortOf(keyT)
	k := Var("k", ks)
	var dom *Term
	if !tb.IsMap {
		dom = And(Le(IntLit(0), k), Lt(k, IntLit(int64(len(tb.Entries)))))
	} else {
		var ds []*Term
		for _, e := range tb.Entries {
			ds = append(ds, Eq(k, e.K))
		}
		dom = Or(ds...)
	}
	var lits []string
	for _, e := range tb.Entries {
		if e.K != nil && e.K.Op == "strlit" {
			lits = append(lits, e.K.Name)
		}
	}
	TB.funs[tb.sym("dom")] = &FunDecl{Name: tb.sym("dom"), Args: []*Sort{ks}, Ret: SBool, Lits: lits, Def: fmt.Sprintf("(define-fun %s ((|k| %s)) Bool %s)\n", tb.sym("dom"), ks.Name, dom.String())}
	TB.funOrd = append(TB.funOrd, tb.sym("dom"))
	if sortOf(elemT) != SSlice && sortOf(elemT) != nil {
		tb.valSort = sortOf(elemT)
		r := zeroOf(elemT)
		for i := len(tb.Entries) - 1; i >= 0; i-- {
			e := tb.Entries[i]
			key := e.K
			if !tb.IsMap {
				key = IntLit(int64(i))
			}
			r = Ite(Eq(k, key), e.V, r)
		}
		TB.funs[tb.sym("val")] = &FunDecl{Name: tb.sym("val"), Args: []*Sort{ks}, Ret: tb.valSort, Lits: lits, Def: fmt.Sprintf("(define-fun %s ((|k| %s)) %s %s)\n", tb.sym("val"), ks.Name, tb.valSort.Name, r.String())}
		TB.funOrd = append(TB.funOrd, tb.sym("val"))
	}
}

// rowRef: the array holding the i-th nested literal of the table. Rows are
// ordinary objects allocated before the function under verification starts
// (see tableRefFacts); their content is fixed by heapInv in every heap state.
// This is justified by the immutability scan (tableWriters): rows never escape.
func (tb *Table) rowRef(i int) *Term {
	return Var(fmt.Sprintf("tblrow.%s.%d", tb.Name, i), SInt)
}

// subSlice: the slice value stored under key k of a nested table (nil slice when absent)
func (tb *Table) subSlice(k *Term) *Term {
	r := NilSlice
	for i := len(tb.Entries) - 1; i >= 0; i-- {
		e := tb.Entries[i]
		key := e.K
		if !tb.IsMap {
			key = IntLit(int64(i))
		}
		n := IntLit(int64(len(e.Sub)))
		r = Ite(Eq(k, key), SliceMk(tb.rowRef(i), IntLit(0), n, n), r)
	}
	return r
}

func (tb *Table) nested() bool {
	for _, e := range tb.Entries {
		if e.Sub != nil {
			return true
		}
	}
	return false
}

func (tb *Table) elemType() types.Type {
	switch u := tb.Typ.Underlying().(type) {
	case *types.Map:
		return u.Elem()
	case *types.Slice:
		return u.Elem()
	}
	return nil
}

// tableHeapFacts: what every heap state says about the tables (called from heapInv
// for every heap-array constant h named `name` that occurs in a query):
//   - the element memory of a nested table's rows holds the literal values;
//   - the map object of a scalar map table holds exactly the literal entries, so a
//     table reached through a variable (a parameter, a function result) reads the
//     same as the table named directly.
func (p *Program) tableHeapFacts(used []*Table, name string, h *Term) *Term {
	var out []*Term
	for _, tb := range used {
		et := tb.elemType()
		if et == nil {
			continue
		}
		if tb.nested() {
			st, ok := et.Underlying().(*types.Slice)
			if !ok || sortOf(st.Elem()) == nil || elemHeapName(st.Elem()) != name {
				continue
			}
			for i, e := range tb.Entries {
				for j, v := range e.Sub {
					out = append(out, Eq(Select(Select(h, tb.rowRef(i)), IntLit(int64(j))), v))
				}
			}
			continue
		}
		mt, ok := tb.Typ.Underlying().(*types.Map)
		if !ok || sortOf(mt.Elem()) == nil || sortOf(mt.Key()) == nil {
			continue
		}
		d, v, l := mapHeapNames(mt)
		k := BVar("tk", sortOf(mt.Key()))
		switch name {
		case d:
			out = append(out, Forall([]*Term{k}, Eq(Select(Select(h, tb.Ref), k), tb.domTerm(k)), []*Term{Select(Select(h, tb.Ref), k)}))
		case v:
			out = append(out, Forall([]*Term{k}, Eq(Select(Select(h, tb.Ref), k), tb.valTerm(k)), []*Term{Select(Select(h, tb.Ref), k)}))
		case l:
			out = append(out, Eq(Select(h, tb.Ref), IntLit(int64(len(tb.Entries)))))
		}
	}
	return And(out...)
}

// tablesReferenced: the tables whose map object or rows occur in ts as values
func (p *Program) tablesReferenced(ts []*Term) []*Table {
	seen := map[*Term]bool{}
	names := map[string]bool{}
	for _, t := range ts {
		collect(t, seen, func(x *Term) {
			if x.Op != "var" || x.Sort != SInt {
				return
			}
			if strings.HasPrefix(x.Name, "tblrow.") {
				n := x.Name[len("tblrow."):]
				if i := strings.LastIndex(n, "."); i > 0 {
					names[n[:i]] = true
				}
			} else if strings.HasPrefix(x.Name, "tbl.") {
				names[x.Name[len("tbl."):]] = true
			}
		})
	}
	var keys []string
	for k, tb := range p.tables {
		if names[tb.Name] {
			keys = append(keys, k)
		}
	}
	sort.Strings(keys)
	var out []*Table
	for _, k := range keys {
		out = append(out, p.tables[k])
	}
	return out
}

// tableRefFacts: table objects (map objects, rows of nested tables) occurring in
// ts are distinct non-nil objects allocated before the function starts.
func (p *Program) tableRefFacts(ts []*Term) []*Term {
	seen := map[*Term]bool{}
	var refs []*Term
	for _, t := range ts {
		collect(t, seen, func(x *Term) {
			if x.Op == "var" && x.Sort == SInt && (strings.HasPrefix(x.Name, "tbl.") || strings.HasPrefix(x.Name, "tblrow.")) {
				refs = append(refs, x)
			}
		})
	}
	if len(refs) == 0 {
		return nil
	}
	sort.Slice(refs, func(i, j int) bool { return refs[i].Name < refs[j].Name })
	a0 := Var("alloc@0", SInt)
	var out []*Term
	for _, r := range refs {
		out = append(out, And(Lt(IntLit(0), r), Le(r, a0)))
	}
	for i := range refs {
		for j := i + 1; j < len(refs); j++ {
			out = append(out, Neq(refs[i], refs[j]))
		}
	}
	return out
}

// subLen / subAt for nested tables (map[K][]V or [][]V)
func (tb *Table) subLen(k *Term) *Term {
	r := IntLit(0)
	for i := len(tb.Entries) - 1; i >= 0; i-- {
		e := tb.Entries[i]
		key := e.K
		if !tb.IsMap {
			key = IntLit(int64(i))
		}
		r = Ite(Eq(k, key), IntLit(int64(len(e.Sub))), r)
	}
	return r
}

func (tb *Table) subAt(k, j *Term, elemT types.Type) *Term {
	r := zeroOf(elemT)
	for i := len(tb.Entries) - 1; i >= 0; i-- {
		e := tb.Entries[i]
		key := e.K
		if !tb.IsMap {
			key = IntLit(int64(i))
		}
		inner := zeroOf(elemT)
		for q := len(e.Sub) - 1; q >= 0; q-- {
			inner = Ite(Eq(j, IntLit(int64(q))), e.Sub[q], inner)
		}
		r = Ite(Eq(k, key), inner, r)
	}
	return r
}

// tableWriters scans the repo packages for instructions that write a table
// global or write through a value loaded directly from it. Returns a list of
// offending positions (empty = syntactically immutable).
func (p *Program) tableWriters(tb *Table) []string {
	var bad []string
	if tb.Global == nil {
		return []string{"global not found in SSA"}
	}
	for key, f := range p.funcs {
		_ = key
		if f.Name() == "init" && f.Pkg == tb.Global.Pkg {
			continue
		}
		for _, b := range f.Blocks {
			for _, ins := range b.Instrs {
				switch x := ins.(type) {
				case *ssa.UnOp:
					if !tb.IsMap && !tb.nested() && x.X == ssa.Value(tb.Global) {
						// flat slice table: the loaded slice may only be read (indexed, measured), kept in a local or
						// returned to callers that do the same; then no writable slice shares its backing array
						bad = append(bad, p.sliceTableUses(x, 0, map[ssa.Value]bool{})...)
					}
				case *ssa.Store:
					if x.Addr == ssa.Value(tb.Global) {
						bad = append(bad, p.pos(x.Pos())+" store to global")
					}
					if ia, ok := x.Addr.(*ssa.IndexAddr); ok && loadedFrom(ia.X, tb.Global) {
						bad = append(bad, p.pos(x.Pos())+" element store")
					}
				case *ssa.MapUpdate:
					if loadedFrom(x.Map, tb.Global) {
						bad = append(bad, p.pos(x.Pos())+" map update")
					}
				case *ssa.Call:
					if bi, ok := x.Call.Value.(*ssa.Builtin); ok && (bi.Name() == "delete" || bi.Name() == "clear") {
						if len(x.Call.Args) > 0 && loadedFrom(x.Call.Args[0], tb.Global) {
							bad = append(bad, p.pos(x.Pos())+" delete/clear")
						}
					}
				}
			}
		}
	}
	return bad
}

// tableAliasWriters: further conditions under which a table may be read as a
// constant when it is reached as an object rather than by name.
//   - scalar map table: the map object may flow anywhere (parameters, results), so
//     no instruction of the repository may update or delete from a map of the
//     table's type, except a map made by make() in the same function;
//   - nested table: the rows handed out by a lookup stay local to the function
//     that looked them up and are only read (len, cap, element read, local variable).
func (p *Program) tableAliasWriters(tb *Table) []string {
	var bad []string
	if tb.Global == nil {
		return nil
	}
	madeHere := func(f *ssa.Function, v ssa.Value) bool {
		if _, ok := v.(*ssa.MakeMap); ok {
			return true
		}
		u, ok := v.(*ssa.UnOp)
		if !ok {
			return false
		}
		a, ok := u.X.(*ssa.Alloc)
		if !ok {
			return false
		}
		n := 0
		for _, b := range f.Blocks {
			for _, ins := range b.Instrs {
				if st, ok := ins.(*ssa.Store); ok && st.Addr == ssa.Value(a) {
					if ld, isLoad := st.Val.(*ssa.UnOp); isLoad && ld.X == ssa.Value(a) {
						continue // the variable assigned to itself (named result at a return)
					}
					if _, ok := st.Val.(*ssa.MakeMap); !ok {
						return false
					}
					n++
				}
			}
		}
		return n > 0
	}
	var keys []string
	for k := range p.funcs {
		keys = append(keys, k)
	}
	sort.Strings(keys)
	for _, key := range keys {
		f := p.funcs[key]
		if f.Name() == "init" && f.Pkg == tb.Global.Pkg {
			continue
		}
		if !tb.nested() {
			for _, b := range f.Blocks {
				for _, ins := range b.Instrs {
					switch x := ins.(type) {
					case *ssa.MapUpdate:
						if types.Identical(x.Map.Type().Underlying(), tb.Typ.Underlying()) && !madeHere(f, x.Map) {
							bad = append(bad, p.pos(x.Pos())+" update of a map of the table's type")
						}
					case *ssa.Call:
						if bi, ok := x.Call.Value.(*ssa.Builtin); ok && (bi.Name() == "delete" || bi.Name() == "clear") && len(x.Call.Args) > 0 {
							if types.Identical(x.Call.Args[0].Type().Underlying(), tb.Typ.Underlying()) && !madeHere(f, x.Call.Args[0]) {
								bad = append(bad, p.pos(x.Pos())+" delete/clear on a map of the table's type")
							}
						}
					}
				}
			}
			continue
		}
		if !tb.IsMap {
			// a [][]T table is read as an ordinary heap value whose shape and cells are assumed equal to
			// the literal on every load of the global; it may be stored in a field. Only direct writes
			// through the global are scanned (tableWriters): writes through an alias are an assumption.
			continue
		}
		// nested table: taint the table value and the rows
		tbl := map[ssa.Value]bool{}
		row := map[ssa.Value]bool{}
		for changed := true; changed; {
			changed = false
			mark := func(m map[ssa.Value]bool, v ssa.Value) {
				if !m[v] {
					m[v] = true
					changed = true
				}
			}
			for _, b := range f.Blocks {
				for _, ins := range b.Instrs {
					switch x := ins.(type) {
					case *ssa.UnOp:
						if x.Op == token.MUL {
							if x.X == ssa.Value(tb.Global) || tbl[x.X] {
								mark(tbl, x)
							}
							if row[x.X] {
								mark(row, x)
							}
						}
					case *ssa.Store:
						if a, ok := x.Addr.(*ssa.Alloc); ok {
							if tbl[x.Val] {
								mark(tbl, a)
							}
							if row[x.Val] {
								mark(row, a)
							}
						}
					case *ssa.Lookup:
						if tbl[x.X] {
							mark(row, x)
						}
					case *ssa.Range:
						if tbl[x.X] {
							mark(tbl, x)
						}
					case *ssa.Next:
						if tbl[x.Iter] {
							mark(row, x)
						}
					case *ssa.Extract:
						// value component of a comma-ok lookup / of a map iteration step
						_, isNext := x.Tuple.(*ssa.Next)
						if row[x.Tuple] && ((isNext && x.Index == 2) || (!isNext && x.Index == 0)) {
							mark(row, x)
						}
					case *ssa.Phi:
						for _, e := range x.Edges {
							if row[e] {
								mark(row, x)
							}
							if tbl[e] {
								mark(tbl, x)
							}
						}
					case *ssa.ChangeType:
						if row[x.X] {
							mark(row, x)
						}
						if tbl[x.X] {
							mark(tbl, x)
						}
					}
				}
			}
		}
		if len(tbl) == 0 {
			continue
		}
		for _, b := range f.Blocks {
			for _, ins := range b.Instrs {
				ok := true
				switch x := ins.(type) {
				case *ssa.DebugRef, *ssa.Extract, *ssa.Phi, *ssa.ChangeType, *ssa.Lookup, *ssa.Range, *ssa.Next:
					// propagation handled above; a lookup with a tainted key is harmless
				case *ssa.UnOp:
					ok = x.Op == token.MUL || !(row[x.X] || tbl[x.X])
				case *ssa.Store:
					if row[x.Val] || tbl[x.Val] {
						_, ok = x.Addr.(*ssa.Alloc)
					}
					if ia, isIA := x.Addr.(*ssa.IndexAddr); isIA && (row[ia.X] || tbl[ia.X]) {
						ok = false
					}
				case *ssa.IndexAddr:
					// address of a row element: only loads may use it
					if row[x.X] {
						for _, r := range *x.Referrers() {
							if u, isU := r.(*ssa.UnOp); !(isU && u.Op == token.MUL) {
								if _, isD := r.(*ssa.DebugRef); !isD {
									ok = false
								}
							}
						}
					}
				case *ssa.Call:
					for _, a := range x.Call.Args {
						if row[a] || tbl[a] {
							bi, isB := x.Call.Value.(*ssa.Builtin)
							if !(isB && (bi.Name() == "len" || bi.Name() == "cap")) {
								ok = false
							}
						}
					}
				default:
					var ops []*ssa.Value
					for _, o := range ins.Operands(ops) {
						if o != nil && *o != nil && (row[*o] || tbl[*o]) {
							ok = false
						}
					}
				}
				if !ok {
					bad = append(bad, p.pos(ins.Pos())+" table or table row may escape or be written: "+ins.String())
				}
			}
		}
	}
	return bad
}

func loadedFrom(v ssa.Value, g *ssa.Global) bool {
	if u, ok := v.(*ssa.UnOp); ok {
		return u.X == ssa.Value(g)
	}
	return false
}

func describeTable(tb *Table) string {
	var sb strings.Builder
	fmt.Fprintf(&sb, "%s (%d entries)", tb.Name, len(tb.Entries))
	return sb.String()
}

// linkMapTable: a map table may escape into the heap (stored in a field and
// read back later through the ordinary map heaps). On every load of the global
// the map heaps at the table's reference are assumed to agree with the literal.
// Justified by the immutability of the table (obligation table.<name>#immutable).
func (fc *FuncCtx) linkMapTable(st *State, tb *Table) {
	mt := tb.Typ.Underlying().(*types.Map)
	if sortOf(mt.Elem()) == SSlice || sortOf(mt.Elem()) == nil {
		return
	}
	hd, hv, hl := fc.p.mapHeaps(mt)
	k := BVar("tk?"+tb.Name, sortOf(mt.Key()))
	d := Select(Select(st.H(fc.p, hd), tb.Ref), k)
	v := Select(Select(st.H(fc.p, hv), tb.Ref), k)
	st.assume(And(
		Lt(IntLit(0), tb.Ref), Le(tb.Ref, fc.entry.alloc),
		Eq(Select(st.H(fc.p, hl), tb.Ref), IntLit(int64(len(tb.Entries)))),
		Forall([]*Term{k}, Eq(d, tb.domTerm(k)), []*Term{d}),
		Forall([]*Term{k}, Eq(v, tb.valTerm(k)), []*Term{v})))
}

// linkNestedTable: a [][]T table is read as an ordinary heap value v whose
// shape and cells are assumed to be those of the literal (ground facts).
func (fc *FuncCtx) linkNestedTable(st *State, tb *Table, v *Term) {
	outer := tb.Typ.Underlying().(*types.Slice)
	inner := outer.Elem().Underlying().(*types.Slice)
	hOuter := fc.p.elemHeap(outer.Elem())
	hInner := fc.p.elemHeap(inner.Elem())
	facts := []*Term{Eq(SLen(v), IntLit(int64(len(tb.Entries)))), Lt(IntLit(0), SBase(v)), Le(SBase(v), fc.entry.alloc)}
	for i, e := range tb.Entries {
		row := At(Select(st.H(fc.p, hOuter), SBase(v)), SOff(v), IntLit(int64(i)))
		facts = append(facts, Eq(SLen(row), IntLit(int64(len(e.SubC)))), Lt(IntLit(0), SBase(row)), Le(SBase(row), fc.entry.alloc))
	}
	// cells: one pattern-guarded fact "cell (i, j) is the literal's value" (nested if-then-else over i and j)
	bi, bj := BVar("ti?"+tb.Name, SInt), BVar("tj?"+tb.Name, SInt)
	rowb := At(Select(st.H(fc.p, hOuter), SBase(v)), SOff(v), bi)
	cellb := At(Select(st.H(fc.p, hInner), SBase(rowb)), SOff(rowb), bj)
	val := zeroOf(inner.Elem())
	for i := len(tb.Entries) - 1; i >= 0; i-- {
		e := tb.Entries[i]
		in := zeroOf(inner.Elem())
		for j := len(e.SubC) - 1; j >= 0; j-- {
			in = Ite(Eq(bj, IntLit(int64(j))), constTerm(e.SubC[j], inner.Elem()), in)
		}
		val = Ite(Eq(bi, IntLit(int64(i))), in, val)
	}
	rng := And(Le(IntLit(0), bi), Lt(bi, IntLit(int64(len(tb.Entries)))), Le(IntLit(0), bj), Lt(bj, tb.subLen(bi)))
	facts = append(facts, Forall([]*Term{bi, bj}, Implies(rng, Eq(cellb, val)), []*Term{cellb}))
	st.assume(And(facts...))
}

// SliceVal: the value of a slice table: a slice over the reserved table reference.
// Its cells are never read from the heap: element reads go through valTerm.
func (tb *Table) SliceVal() *Term {
	n := IntLit(int64(len(tb.Entries)))
	return SliceMk(tb.Ref, IntLit(0), n, n)
}

// tableOfSlice: the slice table a slice term denotes (nil if none)
func (p *Program) tableOfSlice(t *Term) *Table {
	if t == nil || t.Op != "mk-slice" {
		return nil
	}
	if tb := p.tableOfRef(t.Args[0]); tb != nil && !tb.IsMap {
		return tb
	}
	return nil
}

// tableElem: element idx of a slice value that denotes a slice table, or an if-then-else of slice
// tables (an inlined callee returning one of two tables, merged at the join point): the read is the
// same if-then-else over the literals. nil when the value is not of that shape.
func (p *Program) tableElem(s, idx *Term) *Term {
	if tb := p.tableOfSlice(s); tb != nil {
		return tb.valTerm(idx)
	}
	if s != nil && s.Op == "ite" && len(s.Args) == 3 {
		a, b := p.tableElem(s.Args[1], idx), p.tableElem(s.Args[2], idx)
		if a != nil && b != nil && a.Sort == b.Sort {
			return Ite(s.Args[0], a, b)
		}
	}
	return nil
}

// sliceTableUses follows a slice-table value through locals and returns (to the in-repo call sites,
// static or through an interface method of the same name) and reports every use that is not a read.
// Callers outside the repository of an exported function returning the table are not seen (assumption).
func (p *Program) sliceTableUses(v ssa.Value, depth int, seen map[ssa.Value]bool) (bad []string) {
	if seen[v] {
		return nil
	}
	seen[v] = true
	if depth > 6 {
		return []string{"slice table value flows too deep to follow"}
	}
	refs := v.Referrers()
	if refs == nil {
		return nil
	}
	for _, r := range *refs {
		switch y := r.(type) {
		case *ssa.DebugRef:
		case *ssa.IndexAddr:
			if y.X != v {
				bad = append(bad, p.pos(y.Pos())+" slice table used as an index")
				continue
			}
			if y.Referrers() != nil {
				for _, rr := range *y.Referrers() {
					if _, dbg := rr.(*ssa.DebugRef); dbg {
						continue
					}
					if ld, ok := rr.(*ssa.UnOp); !ok || ld.Op != token.MUL {
						bad = append(bad, p.pos(rr.Pos())+" element address of slice table written or escaping")
					}
				}
			}
		case *ssa.Call:
			bi, ok := y.Call.Value.(*ssa.Builtin)
			if !ok || (bi.Name() != "len" && bi.Name() != "cap") {
				bad = append(bad, p.pos(y.Pos())+" slice table passed to a call")
			}
		case *ssa.Phi:
			bad = append(bad, p.sliceTableUses(y, depth, seen)...)
		case *ssa.Store:
			al, ok := y.Addr.(*ssa.Alloc)
			if !ok || y.Val != v {
				bad = append(bad, p.pos(y.Pos())+" slice table stored in memory")
				continue
			}
			if al.Referrers() != nil {
				for _, ar := range *al.Referrers() {
					switch z := ar.(type) {
					case *ssa.Store, *ssa.DebugRef:
					case *ssa.UnOp:
						if z.Op == token.MUL {
							bad = append(bad, p.sliceTableUses(z, depth, seen)...)
						} else {
							bad = append(bad, p.pos(z.Pos())+" local holding the slice table escapes")
						}
					default:
						bad = append(bad, p.pos(ar.Pos())+" local holding the slice table escapes")
					}
				}
			}
		case *ssa.Return:
			fn := y.Parent()
			idx := -1
			for i, rv := range y.Results {
				if rv == v {
					idx = i
				}
			}
			for _, f := range p.funcs {
				for _, b := range f.Blocks {
					for _, ins := range b.Instrs {
						cv, ok := ins.(ssa.CallInstruction)
						if !ok {
							continue
						}
						cc := cv.Common()
						hit := cc.StaticCallee() == fn || (cc.IsInvoke() && cc.Method.Name() == fn.Name())
						if !hit {
							continue
						}
						val, isVal := ins.(*ssa.Call)
						if !isVal {
							bad = append(bad, p.pos(ins.Pos())+" slice table returned to a go/defer call")
							continue
						}
						if len(y.Results) == 1 {
							bad = append(bad, p.sliceTableUses(val, depth+1, seen)...)
							continue
						}
						if val.Referrers() != nil {
							for _, er := range *val.Referrers() {
								if ex, ok := er.(*ssa.Extract); ok && ex.Index == idx {
									bad = append(bad, p.sliceTableUses(ex, depth+1, seen)...)
								}
							}
						}
					}
				}
			}
		default:
			bad = append(bad, p.pos(r.Pos())+" slice table value escapes")
		}
	}
	return bad
}
