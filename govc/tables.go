package main

// Package-level constant tables (map / slice composite literals) extracted
// from the typed AST on every run.

import (
	"fmt"
	"go/ast"
	"go/types"
	"strings"

	"golang.org/x/tools/go/ssa"
)

type TableEntry struct {
	K   *Term   // key (maps) or nil (slices: index = position)
	V   *Term   // scalar value, or nil when nested
	Sub []*Term // nested slice literal of scalars
	Src string
}

type Table struct {
	Key     string // pkgpath.name
	Name    string
	Global  *ssa.Global
	Typ     types.Type
	Ref     *Term
	Entries []TableEntry
	IsMap   bool
	Props   []string
	Pos     string
	defined bool
	valSort *Sort
}

func (p *Program) tableOfRef(t *Term) *Table {
	for _, tb := range p.tables {
		if tb.Ref == t {
			return tb
		}
	}
	return nil
}

func (p *Program) tableOfGlobal(g *ssa.Global) *Table {
	if g == nil || g.Pkg == nil {
		return nil
	}
	return p.tables[g.Pkg.Pkg.Path()+"."+g.Name()]
}

func (p *Program) loadTable(td *TableDecl) error {
	pk := p.pkgs[td.Pkg]
	if pk == nil {
		return fmt.Errorf("table %s: package %s not loaded", td.Global, td.Pkg)
	}
	obj, ok := pk.Types.Scope().Lookup(td.Global).(*types.Var)
	if !ok {
		return fmt.Errorf("table %s: no such package-level variable in %s", td.Global, td.Pkg)
	}
	var lit *ast.CompositeLit
	for _, f := range pk.Syntax {
		for _, d := range f.Decls {
			gd, ok := d.(*ast.GenDecl)
			if !ok {
				continue
			}
			for _, s := range gd.Specs {
				vs, ok := s.(*ast.ValueSpec)
				if !ok {
					continue
				}
				for i, n := range vs.Names {
					if pk.TypesInfo.Defs[n] == obj && i < len(vs.Values) {
						lit, _ = vs.Values[i].(*ast.CompositeLit)
					}
				}
			}
		}
	}
	if lit == nil {
		return fmt.Errorf("table %s: initialiser is not a composite literal", td.Global)
	}
	tb := &Table{Key: td.Pkg + "." + td.Global, Name: td.Global, Typ: obj.Type(), Props: td.Props, Pos: p.pos(obj.Pos())}
	tb.Ref = Var("tbl."+td.Global, SInt)
	if sp := p.spkgs[td.Pkg]; sp != nil {
		tb.Global, _ = sp.Members[td.Global].(*ssa.Global)
	}
	constOf := func(e ast.Expr, typ types.Type) (*Term, error) {
		tv, ok := pk.TypesInfo.Types[e]
		if !ok || tv.Value == nil {
			return nil, fmt.Errorf("table %s: non-constant element %s", td.Global, p.srcText(e.Pos(), e.End()))
		}
		return constTerm(tv.Value, typ), nil
	}
	var elemT, keyT types.Type
	switch u := obj.Type().Underlying().(type) {
	case *types.Map:
		tb.IsMap = true
		keyT, elemT = u.Key(), u.Elem()
	case *types.Slice:
		elemT = u.Elem()
	default:
		return fmt.Errorf("table %s: unsupported type %s", td.Global, obj.Type())
	}
	for _, el := range lit.Elts {
		var ent TableEntry
		val := el
		if kv, ok := el.(*ast.KeyValueExpr); ok {
			if !tb.IsMap {
				return fmt.Errorf("table %s: keyed slice literal unsupported", td.Global)
			}
			k, err := constOf(kv.Key, keyT)
			if err != nil {
				return err
			}
			ent.K = k
			val = kv.Value
		}
		ent.Src = p.srcText(el.Pos(), el.End())
		if sub, ok := val.(*ast.CompositeLit); ok {
			st, ok := elemT.Underlying().(*types.Slice)
			if !ok {
				return fmt.Errorf("table %s: nested literal of non-slice type", td.Global)
			}
			ent.Sub = []*Term{}
			for _, se := range sub.Elts {
				v, err := constOf(se, st.Elem())
				if err != nil {
					return err
				}
				ent.Sub = append(ent.Sub, v)
			}
		} else {
			v, err := constOf(val, elemT)
			if err != nil {
				return err
			}
			ent.V = v
		}
		tb.Entries = append(tb.Entries, ent)
	}
	p.tables[tb.Key] = tb
	return nil
}

// domTerm: key membership for map tables, index range for slice tables
func (tb *Table) domTerm(k *Term) *Term {
	tb.define()
	return App(tb.sym("dom"), SBool, k)
}

// valTerm: value at key (zero value when absent)
func (tb *Table) valTerm(k *Term) *Term {
	tb.define()
	if tb.valSort == nil {
		unsupp("table %s: nested value used as a scalar", tb.Name)
	}
	return App(tb.sym("val"), tb.valSort, k)
}

func (tb *Table) sym(part string) string { return "tbl." + tb.Name + "." + part }

func (tb *Table) define() {
	if tb.defined {
		return
	}
	tb.defined = true
	var elemT, keyT types.Type
	switch u := tb.Typ.Underlying().(type) {
	case *types.Map:
		elemT, keyT = u.Elem(), u.Key()
	case *types.Slice:
		elemT, keyT = u.Elem(), tInt
	}
	ks := sortOf(keyT)
	k := Var("k", ks)
	var dom *Term
	if !tb.IsMap {
		dom = And(Le(IntLit(0), k), Lt(k, IntLit(int64(len(tb.Entries)))))
	} else {
		var ds []*Term
		for _, e := range tb.Entries {
			ds = append(ds, Eq(k, e.K))
		}
		dom = Or(ds...)
	}
	var lits []string
	for _, e := range tb.Entries {
		if e.K != nil && e.K.Op == "strlit" {
			lits = append(lits, e.K.Name)
		}
	}
	TB.funs[tb.sym("dom")] = &FunDecl{Name: tb.sym("dom"), Args: []*Sort{ks}, Ret: SBool, Lits: lits, Def: fmt.Sprintf("(define-fun %s ((|k| %s)) Bool %s)\n", tb.sym("dom"), ks.Name, dom.String())}
	TB.funOrd = append(TB.funOrd, tb.sym("dom"))
	if sortOf(elemT) != SSlice && sortOf(elemT) != nil {
		tb.valSort = sortOf(elemT)
		r := zeroOf(elemT)
		for i := len(tb.Entries) - 1; i >= 0; i-- {
			e := tb.Entries[i]
			key := e.K
			if !tb.IsMap {
				key = IntLit(int64(i))
			}
			r = Ite(Eq(k, key), e.V, r)
		}
		TB.funs[tb.sym("val")] = &FunDecl{Name: tb.sym("val"), Args: []*Sort{ks}, Ret: tb.valSort, Lits: lits, Def: fmt.Sprintf("(define-fun %s ((|k| %s)) %s %s)\n", tb.sym("val"), ks.Name, tb.valSort.Name, r.String())}
		TB.funOrd = append(TB.funOrd, tb.sym("val"))
	}
}

// subLen / subAt for nested tables (map[K][]V or [][]V)
func (tb *Table) subLen(k *Term) *Term {
	r := IntLit(0)
	for i := len(tb.Entries) - 1; i >= 0; i-- {
		e := tb.Entries[i]
		key := e.K
		if !tb.IsMap {
			key = IntLit(int64(i))
		}
		r = Ite(Eq(k, key), IntLit(int64(len(e.Sub))), r)
	}
	return r
}

func (tb *Table) subAt(k, j *Term, elemT types.Type) *Term {
	r := zeroOf(elemT)
	for i := len(tb.Entries) - 1; i >= 0; i-- {
		e := tb.Entries[i]
		key := e.K
		if !tb.IsMap {
			key = IntLit(int64(i))
		}
		inner := zeroOf(elemT)
		for q := len(e.Sub) - 1; q >= 0; q-- {
			inner = Ite(Eq(j, IntLit(int64(q))), e.Sub[q], inner)
		}
		r = Ite(Eq(k, key), inner, r)
	}
	return r
}

// tableWriters scans the repo packages for instructions that write a table
// global or write through a value loaded directly from it. Returns a list of
// offending positions (empty = syntactically immutable).
func (p *Program) tableWriters(tb *Table) []string {
	var bad []string
	if tb.Global == nil {
		return []string{"global not found in SSA"}
	}
	for key, f := range p.funcs {
		_ = key
		if f.Name() == "init" && f.Pkg == tb.Global.Pkg {
			continue
		}
		for _, b := range f.Blocks {
			for _, ins := range b.Instrs {
				switch x := ins.(type) {
				case *ssa.Store:
					if x.Addr == ssa.Value(tb.Global) {
						bad = append(bad, p.pos(x.Pos())+" store to global")
					}
					if ia, ok := x.Addr.(*ssa.IndexAddr); ok && loadedFrom(ia.X, tb.Global) {
						bad = append(bad, p.pos(x.Pos())+" element store")
					}
				case *ssa.MapUpdate:
					if loadedFrom(x.Map, tb.Global) {
						bad = append(bad, p.pos(x.Pos())+" map update")
					}
				case *ssa.Call:
					if bi, ok := x.Call.Value.(*ssa.Builtin); ok && (bi.Name() == "delete" || bi.Name() == "clear") {
						if len(x.Call.Args) > 0 && loadedFrom(x.Call.Args[0], tb.Global) {
							bad = append(bad, p.pos(x.Pos())+" delete/clear")
						}
					}
				}
			}
		}
	}
	return bad
}

func loadedFrom(v ssa.Value, g *ssa.Global) bool {
	if u, ok := v.(*ssa.UnOp); ok {
		return u.X == ssa.Value(g)
	}
	return false
}

func describeTable(tb *Table) string {
	var sb strings.Builder
	fmt.Fprintf(&sb, "%s (%d entries)", tb.Name, len(tb.Entries))
	return sb.String()
}
