package main

// Loading /repo (go/packages + go/ssa, NaiveForm) and the contract files.

import (
	"fmt"
	"go/ast"
	"go/token"
	"go/types"
	"os"
	"path/filepath"
	"sort"
	"strings"

	"golang.org/x/tools/go/packages"
	"golang.org/x/tools/go/ssa"
	"golang.org/x/tools/go/ssa/ssautil"
)

type Program struct {
	cbCount        int // callback result symbols handed out (calls.go callbackSym)
	repo           string
	fset           *token.FileSet
	pkgs           map[string]*packages.Package // by import path
	prog           *ssa.Program
	spkgs          map[string]*ssa.Package
	contracts      map[string]*Contract // key: pkgpath + "::" + funckey
	pures          map[string]*PureFunc
	axioms         []*Axiom
	lemmas         []*Lemma
	tables         map[string]*Table // key: pkgpath + "." + global
	specFiles      []*SpecFile
	heapSorts      map[string]*Sort
	funcs          map[string]*ssa.Function // pkgpath::key -> function
	ifaceImpl      map[string]*types.Pointer
	module         string
	loadErrs       []string
	bindErrs       []string
	pureDecl       map[string]*pureInfo
	externs        map[string]*Contract // extern contracts by full name e.g. "fmt.Errorf"
	modCache       map[*ssa.Function]*modInfo
	ifaceContracts map[string]*Contract
	boxed          map[*Term]boxedVal // interface value -> the value it boxes
	constGlobals   map[*ssa.Global]*Term
	externGhost    map[string]bool        // ghost fields named in the assumed contracts of library functions (not assignable by ghostset)
	ghostZero      map[string][][2]string // type -> (ghost field, initial value) of a freshly allocated object
	heapVars       map[*Term]heapVarInfo
	heapTypes      map[string]types.Type
}

type boxedVal struct {
	T   *Term
	Typ types.Type
}

const modulePath = "github.com/evolbioinfo/goalign"

func LoadProgram(repo string, patterns []string) (*Program, error) {
	cfg := &packages.Config{
		Mode:       packages.LoadSyntax,
		Dir:        repo,
		BuildFlags: []string{"-tags=verif"},
		Env:        append(os.Environ(), "GOFLAGS=-mod=mod", "GOPROXY=off", "GOSUMDB=off", "GOTOOLCHAIN=local"),
	}
	pkgs, err := packages.Load(cfg, patterns...)
	if err != nil {
		return nil, err
	}
	p := &Program{repo: repo, pkgs: map[string]*packages.Package{}, spkgs: map[string]*ssa.Package{},
		contracts: map[string]*Contract{}, pures: map[string]*PureFunc{}, tables: map[string]*Table{},
		heapSorts: map[string]*Sort{}, funcs: map[string]*ssa.Function{}, ifaceImpl: map[string]*types.Pointer{},
		module: modulePath, pureDecl: map[string]*pureInfo{}, externs: map[string]*Contract{}, modCache: map[*ssa.Function]*modInfo{}, ifaceContracts: map[string]*Contract{}}
	packages.Visit(pkgs, nil, func(pk *packages.Package) {
		for _, e := range pk.Errors {
			if strings.HasPrefix(pk.PkgPath, modulePath) {
				p.loadErrs = append(p.loadErrs, e.Error())
			}
		}
		p.pkgs[pk.PkgPath] = pk
	})
	if len(p.loadErrs) > 0 {
		return p, fmt.Errorf("load errors: %s", strings.Join(p.loadErrs, "; "))
	}
	prog, _ := ssautil.Packages(pkgs, ssa.NaiveForm|ssa.GlobalDebug)
	prog.Build()
	p.prog = prog
	if len(pkgs) > 0 {
		p.fset = pkgs[0].Fset
	}
	for _, sp := range prog.AllPackages() {
		p.spkgs[sp.Pkg.Path()] = sp
	}
	// index functions of repo packages
	for path, sp := range p.spkgs {
		if !strings.HasPrefix(path, modulePath) {
			continue
		}
		var addFn func(f *ssa.Function)
		addFn = func(f *ssa.Function) {
			if f == nil || f.Synthetic != "" {
				return
			}
			p.funcs[path+"::"+funcKey(f)] = f
			for _, af := range f.AnonFuncs {
				addFn(af)
			}
		}
		for _, m := range sp.Members {
			switch m := m.(type) {
			case *ssa.Function:
				addFn(m)
			case *ssa.Type:
				for _, T := range []types.Type{m.Type(), types.NewPointer(m.Type())} {
					ms := prog.MethodSets.MethodSet(T)
					for i := 0; i < ms.Len(); i++ {
						addFn(prog.MethodValue(ms.At(i)))
					}
				}
			}
		}
	}
	p.computeIfaceImpls()
	// contract files
	for path, pk := range p.pkgs {
		if !strings.HasPrefix(path, modulePath) {
			continue
		}
		dir := ""
		if len(pk.GoFiles) > 0 {
			dir = filepath.Dir(pk.GoFiles[0])
		} else {
			continue
		}
		matches, _ := filepath.Glob(filepath.Join(dir, "zz_contracts*_verif.go"))
		sort.Strings(matches)
		for _, cf := range matches {
			b, err := os.ReadFile(cf)
			if err != nil {
				continue
			}
			if err := checkCommentOnly(cf, string(b)); err != nil {
				return p, err
			}
			sf, err := ParseSpecFile(cf, path, string(b))
			if err != nil {
				return p, err
			}
			p.specFiles = append(p.specFiles, sf)
		}
	}
	return p, nil
}

// AddSpecFile registers an additional spec file (e.g. the extern table in /verif/specs)
func (p *Program) AddSpecFile(path, pkg string) error {
	b, err := os.ReadFile(path)
	if err != nil {
		return err
	}
	sf, err := ParseSpecFile(path, pkg, string(b))
	if err != nil {
		return err
	}
	p.specFiles = append(p.specFiles, sf)
	return nil
}

func (p *Program) Bind() {
	for _, sf := range p.specFiles {
		for _, c := range sf.Contracts {
			if c.Trusted && c.TrustWhy == "external dependency" {
				p.externs[c.FuncKey] = c
				continue
			}
			key := sf.Pkg + "::" + c.FuncKey
			if p.isIfaceKey(sf.Pkg, c.FuncKey) {
				p.ifaceContracts[key] = c
				continue
			}
			if _, ok := p.funcs[key]; !ok {
				p.bindErrs = append(p.bindErrs, fmt.Sprintf("%s:%d: contract for unknown function %s", c.File, c.Line, c.FuncKey))
				continue
			}
			if _, dup := p.contracts[key]; dup {
				p.bindErrs = append(p.bindErrs, fmt.Sprintf("%s:%d: duplicate contract for %s", c.File, c.Line, c.FuncKey))
				continue
			}
			p.contracts[key] = c
		}
		for _, pf := range sf.Pures {
			if _, dup := p.pures[pf.Name]; dup {
				p.bindErrs = append(p.bindErrs, fmt.Sprintf("%s:%d: duplicate pure func %s", sf.Path, pf.Line, pf.Name))
			}
			p.pures[pf.Name] = pf
		}
		for _, gz := range sf.GhostZero {
			if p.ghostZero == nil {
				p.ghostZero = map[string][][2]string{}
			}
			p.ghostZero[gz[0]] = append(p.ghostZero[gz[0]], [2]string{gz[1], gz[2]})
		}
		p.axioms = append(p.axioms, sf.Axioms...)
		p.lemmas = append(p.lemmas, sf.Lemmas...)
		for _, td := range sf.Tables {
			if err := p.loadTable(td); err != nil {
				p.bindErrs = append(p.bindErrs, err.Error())
			}
		}
	}
}

func checkCommentOnly(path, content string) error {
	for i, l := range strings.Split(content, "\n") {
		t := strings.TrimSpace(l)
		if t == "" || strings.HasPrefix(t, "//") || strings.HasPrefix(t, "package ") {
			continue
		}
		return fmt.Errorf("%s:%d: contract file contains a non-comment line: %q", path, i+1, t)
	}
	return nil
}

// funcKey: name of a function relative to its package, e.g. "Reverse",
// "(*seq).Reverse", "DistMatrix$1".
func funcKey(f *ssa.Function) string {
	if f.Pkg == nil {
		return f.String()
	}
	return f.RelString(f.Pkg.Pkg)
}

func (p *Program) contractOf(f *ssa.Function) *Contract {
	if f == nil || f.Pkg == nil {
		return nil
	}
	return p.contracts[f.Pkg.Pkg.Path()+"::"+funcKey(f)]
}

func (p *Program) inRepo(f *ssa.Function) bool {
	return f != nil && f.Pkg != nil && strings.HasPrefix(f.Pkg.Pkg.Path(), p.module)
}

// computeIfaceImpls: closed-world assumption for the repo's interfaces with a
// single implementation among the repo's named types.
func (p *Program) computeIfaceImpls() {
	var named []*types.Named
	var ifaces []*types.Named
	for path, pk := range p.pkgs {
		if !strings.HasPrefix(path, p.module) {
			continue
		}
		sc := pk.Types.Scope()
		for _, n := range sc.Names() {
			if tn, ok := sc.Lookup(n).(*types.TypeName); ok {
				if nt, ok := tn.Type().(*types.Named); ok {
					if _, isI := nt.Underlying().(*types.Interface); isI {
						ifaces = append(ifaces, nt)
					} else {
						named = append(named, nt)
					}
				}
			}
		}
	}
	for _, it := range ifaces {
		iface := it.Underlying().(*types.Interface)
		if iface.NumMethods() == 0 {
			continue
		}
		var impls []*types.Pointer
		for _, nt := range named {
			pt := types.NewPointer(nt)
			if types.Implements(pt, iface) {
				impls = append(impls, pt)
			}
		}
		if len(impls) == 1 {
			p.ifaceImpl[typeKey(it)] = impls[0]
		} else if len(impls) > 1 {
			// prefer the most specific one if others embed... keep ambiguous: the
			// repo's Alignment is implemented by *align only; SeqBag by *seqbag and *align.
			// For SeqBag we pick *seqbag (fields shared through embedding).
			var best *types.Pointer
			for _, im := range impls {
				st, ok := im.Elem().Underlying().(*types.Struct)
				if !ok {
					continue
				}
				embedsOther := false
				for i := 0; i < st.NumFields(); i++ {
					if st.Field(i).Embedded() {
						for _, o := range impls {
							if o != im && types.Identical(st.Field(i).Type(), o.Elem()) {
								embedsOther = true
							}
						}
					}
				}
				if !embedsOther {
					if best != nil {
						best = nil
						break
					}
					best = im
				}
			}
			if best != nil && len(impls) == 2 {
				p.ifaceImpl[typeKey(it)] = best
			}
		}
	}
}

// implOf returns the concrete pointer type standing for an interface type under the closed-world assumption.
func (p *Program) implOf(t types.Type) *types.Pointer {
	if nt, ok := t.(*types.Named); ok {
		if im, ok := p.ifaceImpl[typeKey(nt)]; ok {
			return im
		}
	}
	return nil
}

func (p *Program) pos(pos token.Pos) string {
	if !pos.IsValid() {
		return "?"
	}
	ps := p.fset.Position(pos)
	rel, err := filepath.Rel(p.repo, ps.Filename)
	if err != nil {
		rel = ps.Filename
	}
	return fmt.Sprintf("%s:%d", rel, ps.Line)
}

// source text at a node, normalised (single spaces)
func (p *Program) srcText(start, end token.Pos) string {
	if !start.IsValid() || !end.IsValid() {
		return ""
	}
	ps, pe := p.fset.Position(start), p.fset.Position(end)
	b, err := os.ReadFile(ps.Filename)
	if err != nil || pe.Offset > len(b) || ps.Offset > pe.Offset {
		return ""
	}
	return strings.Join(strings.Fields(string(b[ps.Offset:pe.Offset])), " ")
}

// astFuncOf finds the AST node (FuncDecl or FuncLit) of an SSA function
func astBody(f *ssa.Function) ast.Node {
	return f.Syntax()
}

// loopsOf returns the for/range statements of a function body in source
// order, not descending into function literals.
func loopsOf(n ast.Node) []ast.Stmt {
	var out []ast.Stmt
	if n == nil {
		return nil
	}
	var body *ast.BlockStmt
	switch x := n.(type) {
	case *ast.FuncDecl:
		body = x.Body
	case *ast.FuncLit:
		body = x.Body
	}
	if body == nil {
		return nil
	}
	ast.Inspect(body, func(m ast.Node) bool {
		switch s := m.(type) {
		case *ast.FuncLit:
			return false
		case *ast.ForStmt:
			out = append(out, s)
		case *ast.RangeStmt:
			out = append(out, s)
		}
		return true
	})
	return out
}

// isIfaceKey: "(Name).Method" where Name is an interface type of the package
func (p *Program) isIfaceKey(pkg, key string) bool {
	if !strings.HasPrefix(key, "(") {
		return false
	}
	j := strings.Index(key, ").")
	if j < 0 {
		return false
	}
	name := key[1:j]
	pk := p.pkgs[pkg]
	if pk == nil || pk.Types == nil {
		return false
	}
	obj := pk.Types.Scope().Lookup(name)
	if obj == nil {
		return false
	}
	_, ok := obj.Type().Underlying().(*types.Interface)
	return ok
}
