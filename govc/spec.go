package main

// Spec expression language: lexer, parser, AST. Go-like expressions plus
// ==>, <==>, forall/exists, old(), c ? a : b.

import (
	"fmt"
	"strconv"
	"strings"
	"unicode"
)

type SExpr interface{ sexpr() }

type (
	SIdent struct{ Name string }
	SIntL  struct{ V string }
	SRealL struct{ V string }
	SBoolL struct{ V bool }
	SNil   struct{}
	SStrL  struct{ V string }
	SUnary struct {
		Op string
		X  SExpr
	}
	SBinary struct {
		Op   string
		X, Y SExpr
	}
	SCond struct{ C, A, B SExpr }
	SCall struct {
		Fn   string
		Args []SExpr
	}
	SIndex  struct{ X, I SExpr }
	SSlice3 struct {
		X      SExpr
		Lo, Hi SExpr // may be nil
	}
	SField struct {
		X    SExpr
		Name string
	}
	SQuant struct {
		Kind string // forall / exists
		Vars []SVarDecl
		Body SExpr
	}
)

type SVarDecl struct {
	Name string
	Type string // "int" (default), "real", "bool", "string", "ref"
}

func (SIdent) sexpr()  {}
func (SIntL) sexpr()   {}
func (SRealL) sexpr()  {}
func (SBoolL) sexpr()  {}
func (SNil) sexpr()    {}
func (SStrL) sexpr()   {}
func (SUnary) sexpr()  {}
func (SBinary) sexpr() {}
func (SCond) sexpr()   {}
func (SCall) sexpr()   {}
func (SIndex) sexpr()  {}
func (SSlice3) sexpr() {}
func (SField) sexpr()  {}
func (SQuant) sexpr()  {}

type tok struct {
	k string // "id","int","real","str","char","op","eof"
	s string
}

func lexSpec(src string) ([]tok, error) {
	var out []tok
	i := 0
	for i < len(src) {
		c := src[i]
		switch {
		case c == ' ' || c == '\t' || c == '\n':
			i++
		case unicode.IsLetter(rune(c)) || c == '_' || c == '$':
			j := i + 1
			for j < len(src) && (unicode.IsLetter(rune(src[j])) || unicode.IsDigit(rune(src[j])) || src[j] == '_' || src[j] == '$') {
				j++
			}
			out = append(out, tok{"id", src[i:j]})
			i = j
		case c >= '0' && c <= '9':
			j := i
			isReal := false
			for j < len(src) && (src[j] >= '0' && src[j] <= '9' || src[j] == '.' || src[j] == 'e' || src[j] == 'x' || (src[j] >= 'a' && src[j] <= 'f' && strings.HasPrefix(src[i:], "0x"))) {
				if src[j] == '.' {
					// "1..": stop
					if j+1 < len(src) && src[j+1] == '.' {
						break
					}
					isReal = true
				}
				if src[j] == 'e' && !strings.HasPrefix(src[i:], "0x") {
					isReal = true
					if j+1 < len(src) && (src[j+1] == '-' || src[j+1] == '+') {
						j++
					}
				}
				j++
			}
			if isReal {
				out = append(out, tok{"real", src[i:j]})
			} else {
				out = append(out, tok{"int", src[i:j]})
			}
			i = j
		case c == '\'':
			j := i + 1
			for j < len(src) && src[j] != '\'' {
				if src[j] == '\\' {
					j++
				}
				j++
			}
			if j >= len(src) {
				return nil, fmt.Errorf("unterminated char literal")
			}
			r, _, _, err := strconv.UnquoteChar(src[i+1:j], '\'')
			if err != nil {
				return nil, err
			}
			out = append(out, tok{"int", fmt.Sprint(int(r))})
			i = j + 1
		case c == '"':
			j := i + 1
			for j < len(src) && src[j] != '"' {
				if src[j] == '\\' {
					j++
				}
				j++
			}
			if j >= len(src) {
				return nil, fmt.Errorf("unterminated string literal")
			}
			s, err := strconv.Unquote(src[i : j+1])
			if err != nil {
				return nil, err
			}
			out = append(out, tok{"str", s})
			i = j + 1
		default:
			ops := []string{"<==>", "==>", "::", "==", "!=", "<=", ">=", "&&", "||", "<<", ">>", "&^",
				"+", "-", "*", "/", "%", "<", ">", "!", "(", ")", "[", "]", ",", ".", "?", ":", "&", "|", "^"}
			matched := false
			for _, op := range ops {
				if strings.HasPrefix(src[i:], op) {
					out = append(out, tok{"op", op})
					i += len(op)
					matched = true
					break
				}
			}
			if !matched {
				return nil, fmt.Errorf("unexpected character %q in spec %q", c, src)
			}
		}
	}
	out = append(out, tok{"eof", ""})
	return out, nil
}

type sparser struct {
	toks []tok
	p    int
	src  string
}

func ParseSpec(src string) (e SExpr, err error) {
	toks, err := lexSpec(src)
	if err != nil {
		return nil, err
	}
	ps := &sparser{toks: toks, src: src}
	defer func() {
		if r := recover(); r != nil {
			if pe, ok := r.(specErr); ok {
				err = fmt.Errorf("%s in %q", string(pe), src)
				return
			}
			panic(r)
		}
	}()
	e = ps.expr()
	if ps.peek().k != "eof" {
		ps.fail("unexpected token %q", ps.peek().s)
	}
	return e, nil
}

type specErr string

func (p *sparser) fail(f string, a ...interface{}) { panic(specErr(fmt.Sprintf(f, a...))) }
func (p *sparser) peek() tok                       { return p.toks[p.p] }
func (p *sparser) next() tok                       { t := p.toks[p.p]; p.p++; return t }
func (p *sparser) isOp(s string) bool              { t := p.peek(); return t.k == "op" && t.s == s }
func (p *sparser) accept(s string) bool {
	if p.isOp(s) {
		p.p++
		return true
	}
	return false
}
func (p *sparser) expect(s string) {
	if !p.accept(s) {
		p.fail("expected %q, got %q", s, p.peek().s)
	}
}

func (p *sparser) expr() SExpr {
	t := p.peek()
	if t.k == "id" && (t.s == "forall" || t.s == "exists") {
		p.next()
		var vars []SVarDecl
		for {
			n := p.next()
			if n.k != "id" {
				p.fail("expected bound variable name")
			}
			d := SVarDecl{Name: n.s, Type: "int"}
			if p.peek().k == "id" {
				d.Type = p.next().s
			}
			vars = append(vars, d)
			if !p.accept(",") {
				break
			}
		}
		// propagate explicit type backwards: "i, j real" gives both real
		for i := len(vars) - 2; i >= 0; i-- {
			_ = i
		}
		p.expect("::")
		body := p.expr()
		return SQuant{Kind: t.s, Vars: vars, Body: body}
	}
	return p.iff()
}

func (p *sparser) iff() SExpr {
	x := p.implies()
	for p.accept("<==>") {
		y := p.implies()
		x = SBinary{"<==>", x, y}
	}
	return x
}

func (p *sparser) implies() SExpr {
	x := p.cond()
	if p.accept("==>") {
		// right associative; rhs may be a quantifier
		var y SExpr
		if t := p.peek(); t.k == "id" && (t.s == "forall" || t.s == "exists") {
			y = p.expr()
		} else {
			y = p.implies()
		}
		return SBinary{"==>", x, y}
	}
	return x
}

func (p *sparser) cond() SExpr {
	c := p.or()
	if p.accept("?") {
		a := p.cond()
		p.expect(":")
		b := p.cond()
		return SCond{c, a, b}
	}
	return c
}

func (p *sparser) or() SExpr {
	x := p.and()
	for p.accept("||") {
		x = SBinary{"||", x, p.and()}
	}
	return x
}

func (p *sparser) and() SExpr {
	x := p.cmp()
	for p.accept("&&") {
		x = SBinary{"&&", x, p.cmp()}
	}
	return x
}

func (p *sparser) cmp() SExpr {
	x := p.add()
	// chained comparisons a <= b < c
	var res SExpr
	for {
		t := p.peek()
		if t.k == "op" && (t.s == "==" || t.s == "!=" || t.s == "<" || t.s == "<=" || t.s == ">" || t.s == ">=") {
			p.next()
			y := p.add()
			c := SBinary{t.s, x, y}
			if res == nil {
				res = c
			} else {
				res = SBinary{"&&", res, c}
			}
			x = y
			continue
		}
		break
	}
	if res != nil {
		return res
	}
	return x
}

func (p *sparser) add() SExpr {
	x := p.mul()
	for {
		t := p.peek()
		if t.k == "op" && (t.s == "+" || t.s == "-" || t.s == "|" || t.s == "^") {
			p.next()
			x = SBinary{t.s, x, p.mul()}
			continue
		}
		return x
	}
}

func (p *sparser) mul() SExpr {
	x := p.unary()
	for {
		t := p.peek()
		if t.k == "op" && (t.s == "*" || t.s == "/" || t.s == "%" || t.s == "&" || t.s == "<<" || t.s == ">>" || t.s == "&^") {
			p.next()
			x = SBinary{t.s, x, p.unary()}
			continue
		}
		return x
	}
}

func (p *sparser) unary() SExpr {
	if p.accept("!") {
		return SUnary{"!", p.unary()}
	}
	if p.accept("-") {
		return SUnary{"-", p.unary()}
	}
	return p.postfix()
}

func (p *sparser) postfix() SExpr {
	x := p.primary()
	for {
		switch {
		case p.accept("."):
			n := p.next()
			if n.k != "id" {
				p.fail("expected field name after '.'")
			}
			// package-qualified function call or method-like spec call
			if p.isOp("(") {
				if id, ok := x.(SIdent); ok {
					p.next()
					args := p.args()
					x = SCall{Fn: id.Name + "." + n.s, Args: args}
					continue
				}
			}
			x = SField{x, n.s}
		case p.accept("["):
			var lo, hi SExpr
			if p.accept(":") {
				if !p.isOp("]") {
					hi = p.expr()
				}
				p.expect("]")
				x = SSlice3{x, nil, hi}
				continue
			}
			lo = p.expr()
			if p.accept(":") {
				if !p.isOp("]") {
					hi = p.expr()
				}
				p.expect("]")
				x = SSlice3{x, lo, hi}
				continue
			}
			p.expect("]")
			x = SIndex{x, lo}
		default:
			return x
		}
	}
}

func (p *sparser) args() []SExpr {
	var args []SExpr
	if p.accept(")") {
		return args
	}
	for {
		args = append(args, p.expr())
		if p.accept(")") {
			return args
		}
		p.expect(",")
	}
}

func (p *sparser) primary() SExpr {
	t := p.next()
	switch t.k {
	case "int":
		return SIntL{t.s}
	case "real":
		return SRealL{t.s}
	case "str":
		return SStrL{t.s}
	case "id":
		switch t.s {
		case "true":
			return SBoolL{true}
		case "false":
			return SBoolL{false}
		case "nil":
			return SNil{}
		}
		if p.isOp("(") {
			p.next()
			return SCall{Fn: t.s, Args: p.args()}
		}
		return SIdent{t.s}
	case "op":
		if t.s == "(" {
			e := p.expr()
			p.expect(")")
			return e
		}
	}
	p.fail("unexpected token %q", t.s)
	return nil
}

// ---- contract file structure ----

type Clause struct {
	Kind string // requires, ensures, invariant, decreases, assert, modifies, ...
	Text string
	Expr SExpr
	Tags []string // property tags restricting the clause
	Name string   // optional label
	Line int
}

// GhostSet is an assignment to a contract-only ghost field (an auxiliary variable: no program value depends on it),
// executed in order at every return of the function before its hints and postconditions are checked.
type GhostSet struct {
	Text string
	LHS  SCall // gf(name, obj) or gfa(name, obj, index)
	RHS  SExpr
	Line int
}

type LoopContract struct {
	Ordinal     int
	Invariants  []*Clause
	Decreases   *Clause
	NoAuto      bool
	Modifies    []string // loop-level frame: locations the loop may write, relative to the state at loop entry
	ModifiesSet bool
}

type Contract struct {
	FuncKey     string // e.g. "(*seq).Reverse" or "Reverse" or "DistMatrix$2"
	Pkg         string
	Props       []string
	Requires    []*Clause
	Ensures     []*Clause
	Modifies    []string // raw location specs; nil = nothing
	ModifiesSet bool
	Loops       map[int]*LoopContract
	// loop clauses for the loops of callees inlined into this function ("loop 1 in (*seqbag).IterateAll",
	// optionally "...#2" = only the 2nd inlining of that callee): key = callee key [+ "#k"]. Naming a callee here
	// asks for it to be inlined in this function even when it has a contract of its own.
	InlLoops   map[string]map[int]*LoopContract
	Inline     bool
	Trusted    bool // assumed contract (body not verified)
	TrustWhy   string
	Arith      string    // "" (math) or "wrap64"
	Float      string    // "" (exact reals) or "xreal" (extended reals with NaN/Inf)
	Asserts    []*Clause // assert_at
	ChanInvs   []*Clause // chaninv <elem type> : P(elem)   assumed at every receive, proved at every send of a channel of that element type
	Hints      []*Clause // proved at every return with the locals in scope, then assumed for the postconditions (not visible to callers)
	Covers     []*Clause
	GhostSets  []*GhostSet // ghostset gf(name, obj) := e / gfa(name, obj, k) := e : ghost assignments run at every return
	Line       int
	File       string
	Notes      []string
	MayPanic   bool // explicit panics allowed (documented behaviour)
	NoTerm     bool
	Params     []string // for extern contracts: parameter names
	AllowExit  bool
	MakeLimit  bool // opt-in: every make([]T, n) must also prove n*sizeof(T) <= 2^48 (runtime allocation limit)
	Callbacks  []*Callback
	Iterates   *IterProto // trusted iterator: how it drives the function literal it is given
	IteratedBy string     // function literal: key of the iterator it is handed to (its iterinv/iterstop clauses follow that protocol)
	IterInvs   []*Clause  // function literal: invariant indexed by $k = number of completed activations that returned false
	IterStops  []*Clause  // function literal: holds when an activation returns true (the iterator stops there)
	Preserves  []*Clause  // function literals only: one-state invariant over the captured variables (also a requires and an ensures)
	GoInvs     []*Clause  // goinv E: invariant shared with the goroutines this function starts (see goInvariant in instr.go)
}

// Callback (extern contracts): `callback fn x y v : dom` states that the callee calls its function parameter fn only
// with argument tuples (x, y, v) satisfying dom (evaluated in the pre-state), at most once per tuple, in states that
// differ from the pre-state by the callee's modifies set only. fnres(fn, x, y, v) in the ensures is the value returned.
type Callback struct {
	Fn   string
	Vars []string
	Dom  *Clause
}

// IterProto: `iterates <stable> ; <count> ; <arg>, <arg>, ...` in the trusted contract of an iterator whose body is
//
//	S := <stable>; for $k := 0; $k < <count>; $k++ { if it(<arg>...) { break } }
//
// <stable> is what the iterator reads once before the loop (the function literal must leave it unchanged); <count> and the
// <arg>s (expressions over the iterator's parameters and $k) are read in the heap current at activation $k.
type IterProto struct {
	Stable, Count SExpr
	Args          []SExpr
	Text          string
}

type PureFunc struct {
	Name      string
	Params    []SVarDecl // Type is Go-ish type text: int, real, bool, []uint8, []int, []float64, string, *align, ...
	Ret       string
	Body      SExpr // nil: uninterpreted
	Text      string
	Pkg       string
	Recursive bool
	Sealed    bool // opaque, definition split into two implications (not a macro for the solver)
	Opaque    bool // kept as a function symbol with a pattern-guarded definitional axiom (gives quantifier triggers)
	Line      int
}

type Axiom struct {
	Name string
	Text string
	Expr SExpr
	Pkg  string
}

type Lemma struct {
	Name     string
	Props    []string
	Params   []SVarDecl
	Requires []*Clause
	Ensures  []*Clause
	Cases    []LemmaCase // `cases i 0 3`: integer parameter enumerated over lo..hi, one obligation per combination
	Pkg      string
	Line     int
}

type LemmaCase struct {
	Param  string
	Lo, Hi int64
}

type TableDecl struct {
	Global string
	Pkg    string
	Props  []string
}

type SpecFile struct {
	Pkg       string
	Path      string
	Contracts []*Contract
	Pures     []*PureFunc
	Axioms    []*Axiom
	Lemmas    []*Lemma
	Tables    []*TableDecl
	GhostZero [][3]string
}

var clauseKeywords = map[string]bool{
	"func": true, "pure": true, "opaque": true, "ground": true, "sealed": true, "props": true, "requires": true, "ensures": true, "modifies": true,
	"loop": true, "invariant": true, "decreases": true, "assert_at": true, "table": true, "axiom": true,
	"lemma": true, "inline": true, "hint": true, "chaninv": true, "arith": true, "trusted": true, "cover": true, "note": true,
	"maypanic": true, "noauto": true, "cases": true, "float": true, "ghostzero": true, "params": true, "allowexit": true, "extern": true, "makelimit": true, "callback": true, "preserves": true, "goinv": true, "iterates": true, "iterated_by": true, "iterinv": true, "iterstop": true, "ghostset": true,
}

// parseTags parses an optional "[C01,C02]" or "[name]" prefix
// splitTop splits at commas that are not inside parentheses or brackets
func splitTop(s string) []string {
	var out []string
	depth, start := 0, 0
	for i, c := range s {
		switch c {
		case '(', '[':
			depth++
		case ')', ']':
			depth--
		case ',':
			if depth == 0 {
				out = append(out, s[start:i])
				start = i + 1
			}
		}
	}
	return append(out, s[start:])
}

func parseTags(s string) (tags []string, rest string) {
	s = strings.TrimSpace(s)
	if strings.HasPrefix(s, "[") {
		if j := strings.Index(s, "]"); j > 0 {
			for _, t := range strings.Split(s[1:j], ",") {
				tags = append(tags, strings.TrimSpace(t))
			}
			return tags, strings.TrimSpace(s[j+1:])
		}
	}
	return nil, s
}

func ParseSpecFile(path, pkg, content string) (*SpecFile, error) {
	sf := &SpecFile{Pkg: pkg, Path: path}
	// gather logical lines
	type lline struct {
		text string
		line int
	}
	var lines []lline
	for i, raw := range strings.Split(content, "\n") {
		t := strings.TrimSpace(raw)
		if !strings.HasPrefix(t, "//@") {
			continue
		}
		body := strings.TrimSpace(t[3:])
		if body == "" {
			continue
		}
		// strip trailing comment " // ..."
		if j := strings.Index(body, " // "); j >= 0 {
			body = strings.TrimSpace(body[:j])
		}
		first := body
		if j := strings.IndexAny(body, " \t["); j >= 0 {
			first = body[:j]
		}
		if clauseKeywords[first] {
			lines = append(lines, lline{body, i + 1})
		} else if len(lines) > 0 {
			lines[len(lines)-1].text += " " + body
		} else {
			return nil, fmt.Errorf("%s:%d: continuation line without clause", path, i+1)
		}
	}
	var cur *Contract
	var curLoop *LoopContract
	var curLemma *Lemma
	mkClause := func(kind, rest string, line int) (*Clause, error) {
		tags, r := parseTags(rest)
		e, err := ParseSpec(r)
		if err != nil {
			return nil, fmt.Errorf("%s:%d: %v", path, line, err)
		}
		return &Clause{Kind: kind, Text: r, Expr: e, Tags: tags, Line: line}, nil
	}
	for _, l := range lines {
		kw := l.text
		rest := ""
		if j := strings.IndexAny(l.text, " \t["); j >= 0 {
			kw = l.text[:j]
			rest = strings.TrimSpace(l.text[j:])
		}
		switch kw {
		case "func", "extern":
			cur = &Contract{FuncKey: rest, Pkg: pkg, Loops: map[int]*LoopContract{}, Line: l.line, File: path}
			if kw == "extern" {
				cur.Trusted = true
				cur.TrustWhy = "external dependency"
			}
			curLoop = nil
			curLemma = nil
			sf.Contracts = append(sf.Contracts, cur)
		case "pure", "opaque", "ground", "sealed":
			pf, err := parsePure(rest, pkg, l.line)
			if err != nil {
				return nil, fmt.Errorf("%s:%d: %v", path, l.line, err)
			}
			pf.Opaque = kw == "opaque" || kw == "sealed"
			// sealed: an opaque predicate whose definition is emitted as two implications, so that
			// solvers cannot treat the definitional axiom as a macro and inline the body everywhere
			pf.Sealed = kw == "sealed"
			if kw == "ground" {
				// non-recursive, but treated like a recursive spec function: an SMT function symbol whose
				// definition is instantiated at ground applications only (no quantified definitional axiom)
				pf.Recursive = true
			}
			sf.Pures = append(sf.Pures, pf)
			cur, curLoop, curLemma = nil, nil, nil
		case "axiom":
			j := strings.Index(rest, ":")
			if j < 0 {
				return nil, fmt.Errorf("%s:%d: axiom needs 'name: expr'", path, l.line)
			}
			e, err := ParseSpec(rest[j+1:])
			if err != nil {
				return nil, fmt.Errorf("%s:%d: %v", path, l.line, err)
			}
			sf.Axioms = append(sf.Axioms, &Axiom{Name: strings.TrimSpace(rest[:j]), Text: rest[j+1:], Expr: e, Pkg: pkg})
			cur, curLoop, curLemma = nil, nil, nil
		case "lemma":
			lm, err := parseLemmaHead(rest, pkg, l.line)
			if err != nil {
				return nil, fmt.Errorf("%s:%d: %v", path, l.line, err)
			}
			sf.Lemmas = append(sf.Lemmas, lm)
			curLemma = lm
			cur, curLoop = nil, nil
		case "ghostzero":
			// ghostzero <type> <ghost field>: a freshly allocated zero value of that library type has ghost field 0
			// optional third field: the initial value (default 0), e.g. a dynamic-type tag
			f := strings.Fields(rest)
			if len(f) == 2 {
				sf.GhostZero = append(sf.GhostZero, [3]string{f[0], f[1], "0"})
			} else if len(f) == 3 {
				sf.GhostZero = append(sf.GhostZero, [3]string{f[0], f[1], f[2]})
			}
		case "cases":
			f := strings.Fields(rest)
			if curLemma == nil || len(f) != 3 {
				return nil, fmt.Errorf("%s:%d: 'cases <param> <lo> <hi>' belongs to a lemma", path, l.line)
			}
			lo, e1 := strconv.ParseInt(f[1], 10, 64)
			hi, e2 := strconv.ParseInt(f[2], 10, 64)
			if e1 != nil || e2 != nil || hi < lo || hi-lo > 63 {
				return nil, fmt.Errorf("%s:%d: cases: bad range", path, l.line)
			}
			curLemma.Cases = append(curLemma.Cases, LemmaCase{Param: f[0], Lo: lo, Hi: hi})
		case "table":
			f := strings.Fields(rest)
			sf.Tables = append(sf.Tables, &TableDecl{Global: f[0], Pkg: pkg, Props: f[1:]})
		case "props":
			if curLemma != nil {
				curLemma.Props = strings.Fields(rest)
			} else if cur != nil {
				cur.Props = strings.Fields(rest)
			}
		case "params":
			if cur != nil {
				cur.Params = strings.Fields(rest)
			}
		case "requires", "ensures":
			c, err := mkClause(kw, rest, l.line)
			if err != nil {
				return nil, err
			}
			if curLemma != nil {
				if kw == "requires" {
					curLemma.Requires = append(curLemma.Requires, c)
				} else {
					curLemma.Ensures = append(curLemma.Ensures, c)
				}
				break
			}
			if cur == nil {
				return nil, fmt.Errorf("%s:%d: clause outside func", path, l.line)
			}
			if kw == "requires" {
				cur.Requires = append(cur.Requires, c)
			} else {
				cur.Ensures = append(cur.Ensures, c)
			}
		case "goinv":
			// goinv E (contract of a function that starts goroutines with `go func() {...}()`): E is a one-state invariant
			// over the locals of the function, shared with the function literals it starts: proved at every `go` statement
			// and at every WaitGroup.Wait before the effects of the goroutines are havocked, assumed after the havoc. Every
			// literal started must carry the same text as a `preserves` clause (and no other precondition).
			if cur == nil || curLemma != nil {
				return nil, fmt.Errorf("%s:%d: goinv belongs to a func contract", path, l.line)
			}
			for _, bad := range []string{"old(", "fresh(", "allocated(", "entry("} {
				if strings.Contains(rest, bad) {
					return nil, fmt.Errorf("%s:%d: goinv: %s...) is relative to one activation and cannot be used in a shared invariant", path, l.line, bad)
				}
			}
			c, err := mkClause(kw, rest, l.line)
			if err != nil {
				return nil, err
			}
			cur.GoInvs = append(cur.GoInvs, c)
		case "preserves":
			// preserves E (contract of a function literal): E is a one-state invariant over the captured variables.
			// It is assumed at the entry of the literal and proved at each of its returns (requires + ensures). Where the
			// literal is handed to a callee that is used through a contract with `modifies nothing` (an iterator that
			// only calls its argument), E is proved in the caller before that call and assumed after it.
			if cur == nil || !strings.Contains(cur.FuncKey, "$") {
				return nil, fmt.Errorf("%s:%d: preserves belongs to the contract of a function literal", path, l.line)
			}
			for _, bad := range []string{"old(", "fresh(", "allocated(", "entry("} {
				if strings.Contains(rest, bad) {
					return nil, fmt.Errorf("%s:%d: preserves: %s...) is relative to one activation and cannot be used in a preserved invariant", path, l.line, bad)
				}
			}
			for _, kind := range []string{"preserves", "requires", "ensures"} {
				c, err := mkClause(kind, rest, l.line)
				if err != nil {
					return nil, err
				}
				switch kind {
				case "preserves":
					cur.Preserves = append(cur.Preserves, c)
				case "requires":
					cur.Requires = append(cur.Requires, c)
				default:
					cur.Ensures = append(cur.Ensures, c)
				}
			}
		case "iterates":
			parts := strings.Split(rest, ";")
			if cur == nil || len(parts) != 3 {
				return nil, fmt.Errorf("%s:%d: iterates needs '<stable> ; <count> ; <arg>, ...' inside a func contract", path, l.line)
			}
			ip := &IterProto{Text: rest}
			var err error
			if ip.Stable, err = ParseSpec(parts[0]); err != nil {
				return nil, fmt.Errorf("%s:%d: %v", path, l.line, err)
			}
			if ip.Count, err = ParseSpec(parts[1]); err != nil {
				return nil, fmt.Errorf("%s:%d: %v", path, l.line, err)
			}
			for _, a := range splitTop(parts[2]) {
				e, err := ParseSpec(a)
				if err != nil {
					return nil, fmt.Errorf("%s:%d: %v", path, l.line, err)
				}
				ip.Args = append(ip.Args, e)
			}
			cur.Iterates = ip
		case "iterated_by":
			if cur == nil || !strings.Contains(cur.FuncKey, "$") {
				return nil, fmt.Errorf("%s:%d: iterated_by belongs to the contract of a function literal", path, l.line)
			}
			cur.IteratedBy = strings.TrimSpace(rest)
		case "iterinv", "iterstop":
			// iterinv E($k): assumed at the entry of activation $k of the literal, E($k+1) proved when it returns false;
			// iterstop E: proved when it returns true. At the iterator call: E(0) is proved before, and
			// (E(count) || stop) is assumed after (see closurePreserves).
			if cur == nil || cur.IteratedBy == "" {
				return nil, fmt.Errorf("%s:%d: %s needs a preceding iterated_by clause", path, l.line, kw)
			}
			for _, bad := range []string{"old(", "fresh(", "allocated(", "entry("} {
				if strings.Contains(rest, bad) {
					return nil, fmt.Errorf("%s:%d: %s: %s...) is relative to one activation and cannot be used here", path, l.line, kw, bad)
				}
			}
			c0, err := mkClause(kw, rest, l.line)
			if err != nil {
				return nil, err
			}
			if kw == "iterinv" {
				cur.IterInvs = append(cur.IterInvs, c0)
				c1, _ := mkClause("requires", rest, l.line)
				cur.Requires = append(cur.Requires, c1)
				c2, err := mkClause("ensures", "!result ==> ("+strings.ReplaceAll(rest, "$k", "($k + 1)")+")", l.line)
				if err != nil {
					return nil, err
				}
				cur.Ensures = append(cur.Ensures, c2)
			} else {
				cur.IterStops = append(cur.IterStops, c0)
				c2, err := mkClause("ensures", "result ==> ("+rest+")", l.line)
				if err != nil {
					return nil, err
				}
				cur.Ensures = append(cur.Ensures, c2)
			}
		case "chaninv":
			j := strings.Index(rest, ":")
			if j < 0 {
				return nil, fmt.Errorf("%s:%d: chaninv needs '<element type> : <expr>'", path, l.line)
			}
			c, err := mkClause(kw, rest[j+1:], l.line)
			if err != nil {
				return nil, err
			}
			c.Name = strings.TrimSpace(rest[:j])
			if cur != nil {
				cur.ChanInvs = append(cur.ChanInvs, c)
			}
		case "hint":
			c, err := mkClause(kw, rest, l.line)
			if err != nil {
				return nil, err
			}
			if cur != nil {
				cur.Hints = append(cur.Hints, c)
			}
		case "ghostset":
			j := strings.Index(rest, ":=")
			if j < 0 || cur == nil {
				return nil, fmt.Errorf("%s:%d: ghostset needs 'gf(name, obj) := <expr>' or 'gfa(name, obj, index) := <expr>' inside a contract", path, l.line)
			}
			lhs, lerr := ParseSpec(rest[:j])
			rhs, rerr := ParseSpec(rest[j+2:])
			lc, isCall := lhs.(SCall)
			if lerr != nil || rerr != nil || !isCall || !((lc.Fn == "gf" && len(lc.Args) == 2) || (lc.Fn == "gfa" && len(lc.Args) == 3)) {
				return nil, fmt.Errorf("%s:%d: ghostset: malformed assignment", path, l.line)
			}
			if _, ok := lc.Args[0].(SIdent); !ok {
				return nil, fmt.Errorf("%s:%d: ghostset: the first argument of gf/gfa is the name of the ghost field", path, l.line)
			}
			cur.GhostSets = append(cur.GhostSets, &GhostSet{Text: strings.TrimSpace(rest), LHS: lc, RHS: rhs, Line: l.line})
		case "cover":
			c, err := mkClause(kw, rest, l.line)
			if err != nil {
				return nil, err
			}
			if cur != nil {
				cur.Covers = append(cur.Covers, c)
			}
		case "modifies":
			if curLoop != nil {
				curLoop.ModifiesSet = true
				for _, m := range splitTop(rest) {
					m = strings.TrimSpace(m)
					if m != "" && m != "nothing" {
						curLoop.Modifies = append(curLoop.Modifies, m)
					}
				}
				break
			}
			if cur == nil {
				return nil, fmt.Errorf("%s:%d: modifies outside func", path, l.line)
			}
			cur.ModifiesSet = true
			for _, m := range splitTop(rest) {
				m = strings.TrimSpace(m)
				if m != "" && m != "nothing" {
					cur.Modifies = append(cur.Modifies, m)
				}
			}
		case "loop":
			if cur == nil {
				return nil, fmt.Errorf("%s:%d: loop outside func", path, l.line)
			}
			f := strings.Fields(rest)
			n, err := strconv.Atoi(f[0])
			if err != nil {
				return nil, fmt.Errorf("%s:%d: loop needs an ordinal", path, l.line)
			}
			curLoop = &LoopContract{Ordinal: n}
			if len(f) >= 3 && f[1] == "in" {
				// loop <n> in <callee key>[#k]: loop n of a callee inlined into this function
				key := strings.Join(f[2:], " ")
				if cur.InlLoops == nil {
					cur.InlLoops = map[string]map[int]*LoopContract{}
				}
				if cur.InlLoops[key] == nil {
					cur.InlLoops[key] = map[int]*LoopContract{}
				}
				cur.InlLoops[key][n] = curLoop
				break
			}
			if len(f) != 1 {
				return nil, fmt.Errorf("%s:%d: loop: expected `loop <n>` or `loop <n> in <callee>`", path, l.line)
			}
			cur.Loops[n] = curLoop
		case "noauto":
			if curLoop != nil {
				curLoop.NoAuto = true
			}
		case "invariant":
			if curLoop == nil {
				return nil, fmt.Errorf("%s:%d: invariant outside loop", path, l.line)
			}
			c, err := mkClause(kw, rest, l.line)
			if err != nil {
				return nil, err
			}
			curLoop.Invariants = append(curLoop.Invariants, c)
		case "decreases":
			if curLoop == nil {
				return nil, fmt.Errorf("%s:%d: decreases outside loop", path, l.line)
			}
			c, err := mkClause(kw, rest, l.line)
			if err != nil {
				return nil, err
			}
			curLoop.Decreases = c
		case "assert_at":
			// assert_at <callee> <ordinal> : expr    -- proved at the ordinal-th call of <callee> in the function,
			// with the locals in scope and the call's arguments bound to arg0, arg1, ...
			j := strings.Index(rest, ":")
			f := strings.Fields(rest[:max(j, 0)])
			if j < 0 || len(f) != 2 {
				return nil, fmt.Errorf("%s:%d: assert_at needs '<callee> <ordinal> : <expr>'", path, l.line)
			}
			n, aerr := strconv.Atoi(f[1])
			if aerr != nil {
				return nil, fmt.Errorf("%s:%d: assert_at: bad ordinal", path, l.line)
			}
			c, err := mkClause(kw, rest[j+1:], l.line)
			if err != nil {
				return nil, err
			}
			c.Name = fmt.Sprintf("%s#%d", f[0], n)
			if cur != nil {
				cur.Asserts = append(cur.Asserts, c)
			}
		case "callback":
			j := strings.Index(rest, ":")
			f := strings.Fields(rest[:max(j, 0)])
			if j < 0 || len(f) < 1 || cur == nil {
				return nil, fmt.Errorf("%s:%d: callback needs '<function parameter> <argument names...> : <domain>' inside a contract", path, l.line)
			}
			c, err := mkClause(kw, rest[j+1:], l.line)
			if err != nil {
				return nil, err
			}
			cur.Callbacks = append(cur.Callbacks, &Callback{Fn: f[0], Vars: f[1:], Dom: c})
		case "inline":
			if cur != nil {
				cur.Inline = true
			}
		case "trusted":
			if cur != nil {
				cur.Trusted = true
				cur.TrustWhy = rest
			}
		case "arith":
			if cur != nil {
				cur.Arith = rest
			}
		case "float":
			if cur != nil {
				cur.Float = rest
			}
		case "maypanic":
			if cur != nil {
				cur.MayPanic = true
			}
		case "allowexit":
			if cur != nil {
				cur.AllowExit = true
			}
		case "makelimit":
			if cur != nil {
				cur.MakeLimit = true
			}
		case "note":
			if cur != nil {
				cur.Notes = append(cur.Notes, rest)
			}
		}
	}
	return sf, nil
}

// pure func name(a int, s []uint8) int = expr
func parsePure(rest, pkg string, line int) (*PureFunc, error) {
	rest = strings.TrimSpace(rest)
	if !strings.HasPrefix(rest, "func ") {
		return nil, fmt.Errorf("expected 'pure func'")
	}
	rest = strings.TrimSpace(rest[5:])
	lp := strings.Index(rest, "(")
	if lp < 0 {
		return nil, fmt.Errorf("bad pure func header")
	}
	name := strings.TrimSpace(rest[:lp])
	// find matching paren
	depth := 0
	rp := -1
	for i := lp; i < len(rest); i++ {
		if rest[i] == '(' {
			depth++
		} else if rest[i] == ')' {
			depth--
			if depth == 0 {
				rp = i
				break
			}
		}
	}
	if rp < 0 {
		return nil, fmt.Errorf("bad pure func params")
	}
	params, err := parseParams(rest[lp+1 : rp])
	if err != nil {
		return nil, err
	}
	tail := strings.TrimSpace(rest[rp+1:])
	ret := tail
	bodyTxt := ""
	if j := strings.Index(tail, "="); j >= 0 && !strings.HasPrefix(tail[j:], "==") {
		ret = strings.TrimSpace(tail[:j])
		bodyTxt = strings.TrimSpace(tail[j+1:])
	}
	pf := &PureFunc{Name: name, Params: params, Ret: ret, Pkg: pkg, Text: bodyTxt, Line: line}
	if bodyTxt != "" {
		e, err := ParseSpec(bodyTxt)
		if err != nil {
			return nil, err
		}
		pf.Body = e
		pf.Recursive = mentionsCall(e, name)
	}
	return pf, nil
}

func parseParams(s string) ([]SVarDecl, error) {
	var out []SVarDecl
	s = strings.TrimSpace(s)
	if s == "" {
		return nil, nil
	}
	for _, p := range strings.Split(s, ",") {
		f := strings.Fields(p)
		if len(f) == 1 {
			out = append(out, SVarDecl{Name: f[0], Type: ""})
		} else if len(f) == 2 {
			out = append(out, SVarDecl{Name: f[0], Type: f[1]})
		} else {
			return nil, fmt.Errorf("bad parameter %q", p)
		}
	}
	// propagate types backwards (a, b int)
	for i := len(out) - 2; i >= 0; i-- {
		if out[i].Type == "" {
			out[i].Type = out[i+1].Type
		}
	}
	for _, d := range out {
		if d.Type == "" {
			return nil, fmt.Errorf("parameter %s has no type", d.Name)
		}
	}
	return out, nil
}

func parseLemmaHead(rest, pkg string, line int) (*Lemma, error) {
	lp := strings.Index(rest, "(")
	rp := strings.LastIndex(rest, ")")
	if lp < 0 || rp < lp {
		return &Lemma{Name: strings.TrimSpace(rest), Pkg: pkg, Line: line}, nil
	}
	params, err := parseParams(rest[lp+1 : rp])
	if err != nil {
		return nil, err
	}
	return &Lemma{Name: strings.TrimSpace(rest[:lp]), Params: params, Pkg: pkg, Line: line}, nil
}

func mentionsCall(e SExpr, name string) bool {
	found := false
	walkSpec(e, func(x SExpr) {
		if c, ok := x.(SCall); ok && c.Fn == name {
			found = true
		}
	})
	return found
}

func walkSpec(e SExpr, f func(SExpr)) {
	if e == nil {
		return
	}
	f(e)
	switch x := e.(type) {
	case SUnary:
		walkSpec(x.X, f)
	case SBinary:
		walkSpec(x.X, f)
		walkSpec(x.Y, f)
	case SCond:
		walkSpec(x.C, f)
		walkSpec(x.A, f)
		walkSpec(x.B, f)
	case SCall:
		for _, a := range x.Args {
			walkSpec(a, f)
		}
	case SIndex:
		walkSpec(x.X, f)
		walkSpec(x.I, f)
	case SSlice3:
		walkSpec(x.X, f)
		walkSpec(x.Lo, f)
		walkSpec(x.Hi, f)
	case SField:
		walkSpec(x.X, f)
	case SQuant:
		walkSpec(x.Body, f)
	}
}
