#!/usr/bin/env python3-vt
import json,sys,glob,jsonschema
ms=json.load(open('/root/.vp/MANIFEST.schema.json'))
es=json.load(open('/root/.vp/EVIDENCE.schema.json'))
m=json.load(open('/verif/MANIFEST.json'))
jsonschema.validate(m,ms)
print("manifest ok:",len(m['checks']),"checks,",len(m.get('not_applicable',[])),"n/a")
for f in sorted(glob.glob('/verif/evidence/*.json')):
    try:
        jsonschema.validate(json.load(open(f)),es); print("ok",f)
    except Exception as e:
        print("BAD",f,str(e)[:300])
