#!/usr/bin/env python3
# Generates the must-fail corpus: small, compiling changes to /repo with the property whose check must report a VIOLATION.
# Each entry: (name, property, file, old text, new text). Patches are written to /verif/selftest/mutants/<name>.patch
import difflib, json, os, sys
M = [
 ("C01-rename-noreindex","C01","align/seqbag.go","		// }\n	}\n	sb.reindex()\n}","		// }\n	}\n}"),
 ("C01-filterlength-or","C01","align/seqbag.go","(minlength < 0 || seq.Length() >= minlength) && (maxlength < 0 || seq.Length() <= maxlength)","(minlength >= 0 && seq.Length() >= minlength) || (maxlength > 0 && seq.Length() <= maxlength)"),
 ("C01-addseq-nolength","C01","align/align.go","	a.length = len(sequence)\n	seq := NewSequence(tmpname, sequence, comment)","	seq := NewSequence(tmpname, sequence, comment)"),
 ("C01-addseq-lt","C01","align/align.go","if a.length != -1 && a.length != len(sequence) {","if a.length != -1 && a.length < len(sequence) {"),
 ("C01-addseq-policy","C01","align/align.go","	if ok && a.ignoreidentical == IGNORE_NAME {","	if ok && a.ignoreidentical == IGNORE_SEQUENCE {"),
 ("C04-subalign-offbyone","C04","align/align.go","copy(tmpseq, seq.SequenceChar()[start:start+length])","copy(tmpseq, seq.SequenceChar()[start:start+length-1])"),
 ("C04-selectsites-bound","C04","align/align.go","		if site < 0 || site >= a.Length() {\n			err = fmt.Errorf(\"site is outside the alignment\")","		if site < 0 || site > a.Length() {\n			err = fmt.Errorf(\"site is outside the alignment\")"),
 ("C04-invcoord-len","C04","align/align.go","invlengths = append(invlengths, a.Length()-(start+length))","invlengths = append(invlengths, a.Length()-(start+length)-1)"),
 ("C04-trim-offbyone","C04","align/align.go","seq.sequence = seq.sequence[trimsize:len(seq.sequence)]","seq.sequence = seq.sequence[trimsize+1 : len(seq.sequence)]"),
 ("C06-reverse-start","C06","align/sequence.go","for i, j := 0, len(seq)-1; i < j; i, j = i+1, j-1 {","for i, j := 0, len(seq)-2; i < j; i, j = i+1, j-1 {"),
 ("C06-complement-k","C06","align/const.go","	'K':   'M',","	'K':   'K',"),
 ("C06-toupper-lower","C06","align/seqbag.go","			seq.sequence[i] = uint8(unicode.ToUpper(rune(c)))","			seq.sequence[i] = uint8(unicode.ToLower(rune(c)))"),
 ("C06-revcomp-noreverse","C06","align/seqbag.go","			return\n		}\n		Reverse(seq.sequence)\n	}","			return\n		}\n	}"),
 ("C07-jc-const","C07","distance/dna/jc.go","dist = -.75 * math.Log(b)","dist = -.5 * math.Log(b)"),
 ("C07-jc-clamp","C07","distance/dna/jc.go","if dist > 0 || math.IsNaN(dist) {","if dist > 0 {"),
 ("C07-k2p-const","C07","distance/dna/k2p.go","- .25*math.Log(1.-2.*trV)","- .5*math.Log(1.-2.*trV)"),
 ("C07-f84-sign","C07","distance/dna/f84.go","+ 2.0*(m.a-m.b-m.c)*math.Log(1-trV/(2.0*m.c))","- 2.0*(m.a-m.b-m.c)*math.Log(1-trV/(2.0*m.c))"),
 ("C07-countdiffs-total","C07","distance/dna/distance.go","				nbdiffs += diffweight\n			}\n			total += w\n			// If we remove ambiguous positions we cancel the current position in the total\n			if diff == 0 && removeAmbiguous && (isAmbiguous(seq1[i]) || isAmbiguous(seq2[i])) {\n				total -= w\n			}\n		}\n	}\n	return\n}\n\n/* Count number of mutations (including gaps to nt) */","				nbdiffs += diffweight\n				total += w\n			}\n			// If we remove ambiguous positions we cancel the current position in the total\n			if diff == 0 && removeAmbiguous && (isAmbiguous(seq1[i]) || isAmbiguous(seq2[i])) {\n				total -= w\n			}\n		}\n	}\n	return\n}\n\n/* Count number of mutations (including gaps to nt) */"),
 ("C07-transition-ct","C07","distance/dna/distance.go","		(n1 == align.NT_T && n2 == align.NT_C) || (n1 == align.NT_C && n2 == align.NT_T))\n}\n\n/* Returns true if it is a A<->G  */","		(n1 == align.NT_T && n2 == align.NT_C))\n}\n\n/* Returns true if it is a A<->G  */"),
 ("C14-entropy-bound","C14","align/align.go","	if site < 0 || site >= a.Length() {\n		return 1.0, errors.New(\"site position is outside alignment\")","	if site < 0 || site > a.Length() {\n		return 1.0, errors.New(\"site position is outside alignment\")"),
 ("C14-maxchar-tie","C14","align/align.go","if v > max || (v == max && k < out[site]) {","if v > max {"),
 ("C14-charstats-nofold","C14","align/align.go","			outmap[uint8(unicode.ToUpper(rune(s.sequence[site])))]++","			outmap[s.sequence[site]]++"),
 ("C15-mask-window","C15","align/align.go","for i := start; i < (start+length) && i < a.Length(); i++ {","for i := start; i <= (start+length) && i < a.Length(); i++ {"),
 ("C15-mask-protect","C15","align/align.go","if !(nogap && (seq.sequence[i] == GAP)) && !(noref && (seq.sequence[i] == refchar)) {","if !(nogap && (seq.sequence[i] == GAP)) && !(noref && (seq.sequence[i] != refchar)) {"),
]
out = "/verif/selftest/mutants"
os.makedirs(out, exist_ok=True)
index = []
for name, prop, f, old, new in M:
    src = open("/repo/" + f).read()
    if src.count(old) != 1:
        print("SKIP %s: old text occurs %d times in %s" % (name, src.count(old), f)); continue
    dst = src.replace(old, new)
    d = "".join(difflib.unified_diff(src.splitlines(True), dst.splitlines(True), "a/" + f, "b/" + f))
    open("%s/%s.patch" % (out, name), "w").write(d)
    index.append({"name": name, "property": prop, "file": f})
json.dump(index, open(out + "/index.json", "w"), indent=1)
print(len(index), "mutants written")
