#!/bin/bash
# Must-fail corpus: every mutant must make the check of its property exit 1 with a VIOLATION line.
# usage: selftest/run.sh [name-filter]     (applies each patch to /repo, runs the check, reverts)
cd /verif
if [ -n "$(git -C /repo status --porcelain)" ]; then echo "REFUSING: /repo has uncommitted changes"; exit 2; fi
python3 selftest/mkmutants.py >/dev/null
pass=0; fail=0
for p in selftest/mutants/*.patch; do
  name=$(basename "$p" .patch)
  case "$name" in *"${1:-}"*) ;; *) continue;; esac
  prop=${name%%-*}
  git -C /repo apply "$(realpath "$p")" || { echo "$name: patch does not apply"; fail=$((fail+1)); continue; }
  (cd /repo && GOFLAGS=-mod=mod GOPROXY=off GOSUMDB=off GOTOOLCHAIN=local go build ./... ) >/dev/null 2>&1 || echo "$name: DOES NOT COMPILE"
  out=$(bin/govc -prop "$prop" 2>&1); rc=$?
  git -C /repo checkout -- .
  if [ $rc -ne 0 ] && echo "$out" | grep -q "^VIOLATION"; then pass=$((pass+1)); echo "$name: detected ($(echo "$out" | grep -c '^VIOLATION') violation lines)"; else fail=$((fail+1)); echo "$name: MISSED"; fi
done
echo "selftest: detected=$pass missed=$fail"
[ $fail -eq 0 ]
