package align

import "testing"

// Known finding C14: MaxCharStats (and Consensus) on an empty alignment: make([]uint8, -1) panics.
func TestFindingMaxCharStatsEmpty(t *testing.T) {
	defer func() {
		if r := recover(); r != nil {
			t.Fatalf("MaxCharStats on an empty alignment panicked: %v", r)
		}
	}()
	a := NewAlign(NUCLEOTIDS)
	a.MaxCharStats(false, false)
}
