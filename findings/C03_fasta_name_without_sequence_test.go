package fasta

import (
	"strings"
	"testing"
)

// Finding C03 (fixed): ">a\n" parsed to an empty alignment with err == nil.
func TestFindingFastaNameWithoutSequence(t *testing.T) {
	for _, in := range []string{">a\n", ">a", "> \n", ">a\nAC\n>b\n"} {
		al, err := NewParser(strings.NewReader(in)).Parse()
		if err == nil && (al == nil || al.NbSequences() == 0 || (in == ">a\nAC\n>b\n" && al.NbSequences() < 2)) {
			n := -1
			if al != nil {
				n = al.NbSequences()
			}
			t.Errorf("input %q: success with %d sequence(s)", in, n)
		}
	}
}
