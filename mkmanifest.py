#!/usr/bin/env python3
# Generates MANIFEST.json from claims.json (per-property claim texts) + the fixed property list.
import json
props=[json.loads(l)['id'] for l in open('/verif/properties.jsonl')]
base=json.load(open('/verif/MANIFEST.base.json'))
na=json.load(open('/verif/na_reasons.json'))
claims=json.load(open('/verif/claims.json'))
checks=[]; nal=[]
for pid in props:
    if pid in claims:
        c=claims[pid]
        checks.append({"property_id":pid,
          "quick_cmd":f"./check {pid} quick","thorough_cmd":f"./check {pid} thorough",
          "evidence_file":f"/verif/evidence/{pid}.json","replay_cmd_template":"./check --replay {path}",
          "engine":"govc",
          "level_claimed":{"category":"proof","text":c["text"],"design_ref":c.get("design_ref","DESIGN.md §8.1 (as built), §4 "+pid+" (plan)")},
          "level_note":c["note"],
          "technique":c.get("technique","contract-based deductive verification: requires/ensures/loop invariants on the real Go functions, VCs generated from go/ssa and discharged by z3/cvc5")})
    else:
        nal.append({"property_id":pid,"reason":na.get(pid,"not claimed in this revision: the functions this property depends on are not yet under contract")})
import subprocess
hooks=subprocess.run(["git","-C","/repo","log","--format=%H %s"],capture_output=True,text=True).stdout.splitlines()
base["hooks"]["source_commits"]=[l.split()[0][:12] for l in hooks if " verif hook" in l][::-1]
base["engines"][0]["serves_properties"]=[c["property_id"] for c in checks]
base["checks"]=checks; base["not_applicable"]=nal
json.dump(base,open('/verif/MANIFEST.json','w'),indent=1)
print(len(checks),"claimed;",len(nal),"not applicable")
