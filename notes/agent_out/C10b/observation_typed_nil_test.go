package align

import "testing"

// Side observation (not exposed by an obligation: the engine models an interface value as the pointer it holds):
// on error RarefySeqBag (and SampleSeqBag) return a NON-nil SeqBag interface that holds a nil *seqbag.
func TestC10bObsTypedNilSeqBag(t *testing.T) {
	a := NewAlign(NUCLEOTIDS)
	a.AddSequence("s1", "ACGT", "")
	s, err := a.RarefySeqBag(3, map[string]int{"zz": 5})
	if err == nil {
		t.Fatal("expected error")
	}
	if s != nil {
		t.Fatalf("RarefySeqBag returns a non-nil SeqBag interface (holding a nil *seqbag) together with an error")
	}
}
