package align

import "testing"

// Rarefy (and RarefySeqBag) hand out the residue storage of the original rows: writing into the
// rarefied alignment changes the original alignment (same defect class as Sample / RandSubAlign
// before their fixes). Exposed by the [C19] clause of (*seqbag).rarefySeqBag:
//   align.(*seqbag).rarefySeqBag>(*seqbag).IterateAll#inv-pres:loop1:forall q :: ... fresh(row(sample, q).sequence)#1
func TestC10bRarefySharesStorage(t *testing.T) {
	a := NewAlign(NUCLEOTIDS)
	a.AddSequence("s1", "ACGT", "")
	a.AddSequence("s2", "TTTT", "")
	counts := map[string]int{"s1": 5, "s2": 5}
	r, err := a.Rarefy(3, counts)
	if err != nil {
		t.Fatal(err)
	}
	if r.NbSequences() < 1 {
		t.Fatal("empty rarefied alignment")
	}
	name, _ := r.GetSequenceNameById(0)
	before, _ := a.GetSequence(name)
	seq, _ := r.GetSequenceCharById(0)
	seq[0] = 'N' // write into the RESULT only
	after, _ := a.GetSequence(name)
	if before != after {
		t.Fatalf("writing into the rarefied alignment changed the original row %s: %s -> %s", name, before, after)
	}
}
