package align

import "testing"

// C13: Compress must return columns of the input. A residue byte >= 0x80 (accepted by AddSequenceChar and by the
// parsers) is corrupted: the pattern is rebuilt with `for seq, c := range pattern`, which decodes the pattern STRING as
// UTF-8 runes instead of bytes (an invalid byte becomes U+FFFD, truncated to 0xFD by uint8(c)).
func TestC13CompressNonASCIIByte(t *testing.T) {
	a := NewAlign(UNKNOWN)
	if err := a.AddSequenceChar("s1", []uint8{0xC8, 'A'}, ""); err != nil {
		t.Fatal(err)
	}
	if err := a.AddSequenceChar("s2", []uint8{'C', 'A'}, ""); err != nil {
		t.Fatal(err)
	}
	w := a.Compress()
	if len(w) != 2 || w[0]+w[1] != 2 {
		t.Fatalf("weights %v", w)
	}
	s1, _ := a.GetSequenceChar("s1")
	s2, _ := a.GetSequenceChar("s2")
	for c := 0; c < a.Length(); c++ {
		ok := (s1[c] == 0xC8 && s2[c] == 'C') || (s1[c] == 'A' && s2[c] == 'A')
		if !ok {
			t.Fatalf("column %d of the compressed alignment is (%#x,%#x): not a column of the input {(0xc8,'C'),('A','A')}", c, s1[c], s2[c])
		}
	}
}
