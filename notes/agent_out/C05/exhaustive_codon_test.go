package align

import (
	"testing"
	"unicode"
)

// Bounded stand-in (NOT a proof): the real translateCodon against an independent specification over the complete
// byte domain: "the amino acid shared by all IUPAC expansions after case folding and U->T, '-' for the full-gap codon,
// 'X' otherwise", with the NCBI tables written as 64-character strings.
var ncbiTables = map[int]string{
	GENETIC_CODE_STANDARD:         "FFLLSSSSYY**CC*WLLLLPPPPHHQQRRRRIIIMTTTTNNKKSSRRVVVVAAAADDEEGGGG",
	GENETIC_CODE_VETEBRATE_MITO:   "FFLLSSSSYY**CCWWLLLLPPPPHHQQRRRRIIMMTTTTNNKKSS**VVVVAAAADDEEGGGG",
	GENETIC_CODE_INVETEBRATE_MITO: "FFLLSSSSYY**CCWWLLLLPPPPHHQQRRRRIIMMTTTTNNKKSSSSVVVVAAAADDEEGGGG",
}

var iupacSets = map[byte]string{'A': "A", 'C': "C", 'G': "G", 'T': "T", 'R': "AG", 'Y': "CT", 'S': "CG", 'W': "AT", 'K': "GT", 'M': "AC",
	'B': "CGT", 'D': "AGT", 'H': "ACT", 'V': "ACG", 'N': "ACGT", '-': "-"}

func specNorm(c byte) byte {
	u := byte(unicode.ToUpper(rune(c)))
	if u == 'U' {
		return 'T'
	}
	return u
}

func specAA(tbl string, b1, b2, b3 byte) (byte, bool) {
	if b1 == '-' && b2 == '-' && b3 == '-' {
		return '-', true
	}
	idx := func(b byte) int {
		switch b {
		case 'T':
			return 0
		case 'C':
			return 1
		case 'A':
			return 2
		case 'G':
			return 3
		}
		return -1
	}
	i, j, k := idx(b1), idx(b2), idx(b3)
	if i < 0 || j < 0 || k < 0 {
		return 0, false
	}
	return tbl[16*i+4*j+k], true
}

func specTranslate(tbl string, n1, n2, n3 byte) byte {
	s1, ok1 := iupacSets[specNorm(n1)]
	s2, ok2 := iupacSets[specNorm(n2)]
	s3, ok3 := iupacSets[specNorm(n3)]
	if !ok1 || !ok2 || !ok3 {
		return 'X'
	}
	var res byte
	first := true
	for _, a := range []byte(s1) {
		for _, b := range []byte(s2) {
			for _, c := range []byte(s3) {
				aa, ok := specAA(tbl, a, b, c)
				if !ok {
					return 'X'
				}
				if !first && aa != res {
					return 'X'
				}
				res, first = aa, false
			}
		}
	}
	return res
}

func TestExhaustiveCodonFunction(t *testing.T) {
	nfail := 0
	for g, tbl := range ncbiTables {
		code, err := geneticCode(g)
		if err != nil {
			t.Fatal(err)
		}
		// all 256^3 byte triples, visiting each class of bytes with the same normal form once in full
		// and every byte in each single position
		reps := map[byte]byte{}
		var classes []byte
		for c := 0; c < 256; c++ {
			n := specNorm(byte(c))
			if _, isIupac := iupacSets[n]; !isIupac {
				n = 0 // all non-IUPAC bytes behave alike in the specification
			}
			if _, seen := reps[n]; !seen {
				reps[n] = byte(c)
				classes = append(classes, byte(c))
			}
		}
		check := func(a, b, c byte) {
			if got, want := translateCodon(a, b, c, code), specTranslate(tbl, a, b, c); got != want {
				nfail++
				if nfail < 20 {
					t.Errorf("code %d codon %q%q%q: got %q want %q", g, a, b, c, got, want)
				}
			}
		}
		for _, a := range classes {
			for _, b := range classes {
				for _, c := range classes {
					check(a, b, c)
				}
			}
		}
		// every byte value in every position against every pair of class representatives
		for x := 0; x < 256; x++ {
			for _, a := range classes {
				for _, b := range classes {
					check(byte(x), a, b)
					check(a, byte(x), b)
					check(a, b, byte(x))
				}
			}
		}
	}
	if nfail > 0 {
		t.Errorf("%d mismatches", nfail)
	}
}
