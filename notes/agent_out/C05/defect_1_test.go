package align

import "testing"

// Alignment.Translate(phase=-1) on an alignment whose length is not 2 mod 3 returns err == nil
// but leaves a ragged "alignment": rows of different lengths, Length() = length of the first row.
func TestDefectTranslateAllFramesRagged(t *testing.T) {
	a := NewAlign(NUCLEOTIDS)
	if err := a.AddSequence("s", "ATGATG", ""); err != nil {
		t.Fatal(err)
	}
	if err := a.Translate(-1, GENETIC_CODE_STANDARD); err != nil {
		t.Fatalf("unexpected error: %v", err)
	}
	for i, s := range a.Sequences() {
		if s.Length() != a.Length() {
			t.Errorf("row %d (%s) has length %d, alignment length is %d: not rectangular", i, s.Name(), s.Length(), a.Length())
		}
	}
}
