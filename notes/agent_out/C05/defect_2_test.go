package align

import "testing"

// Sequence.Translate with a negative frame offset panics (index out of range) instead of returning an error.
func TestDefectTranslateNegativePhasePanics(t *testing.T) {
	defer func() {
		if r := recover(); r != nil {
			t.Errorf("Translate(-1, ...) panicked: %v", r)
		}
	}()
	s := NewSequence("s", []uint8("ATGATG"), "")
	_, err := s.Translate(-1, GENETIC_CODE_STANDARD)
	if err == nil {
		t.Errorf("Translate(-1, ...) returned no error")
	}
}
