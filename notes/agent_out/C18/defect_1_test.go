package models

import (
	"testing"

	"gonum.org/v1/gonum/mat"
)

// minimal two-state model with an eigen system (not analytical):
// Q = [[-1, 1], [1, -1]], eigenvalues 0 and -2, R = [[1, 1], [1, -1]], L = R^-1
type verifTwoState struct{}

func (verifTwoState) NState() int      { return 2 }
func (verifTwoState) Analytical() bool { return false }
func (verifTwoState) Pij(i, j int, l float64) float64 {
	return -1
}
func (verifTwoState) Eigens() ([]float64, *mat.Dense, *mat.Dense, error) {
	return []float64{0, -2},
		mat.NewDense(2, 2, []float64{0.5, 0.5, 0.5, -0.5}),
		mat.NewDense(2, 2, []float64{1, 1, 1, -1}),
		nil
}

// NewPij initialises length to DBL_MIN and SetLength only computes when the
// length changes: for the branch length DBL_MIN the matrix is never computed.
// Obligation: models.NewPij#post:err == nil && !analytical(m) ==> pfloor(pij)
func TestVerifNewPijAtDblMin(t *testing.T) {
	for _, l := range []float64{0, 1e-300, DBL_MIN, 0.1} {
		p, err := NewPij(verifTwoState{}, l)
		if err != nil {
			t.Fatal(err)
		}
		sum := p.Pij(0, 0) + p.Pij(0, 1)
		if p.Pij(0, 0) < DBL_MIN || sum < 0.999 || sum > 1.001 {
			t.Errorf("l=%g: P(0,0)=%g P(0,1)=%g: row does not sum to 1 / entry below the positivity floor", l, p.Pij(0, 0), p.Pij(0, 1))
		}
	}
}
