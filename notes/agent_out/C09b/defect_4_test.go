package align

import "testing"

// Defect 4: fillMatrix_SW initialises maxa[j] (best vertical gap that can be extended into row 1) with
// matrix[0][j] + gapextend instead of matrix[0][j] + gapopen whenever the cell to the LEFT of (0,j) was
// reached by a horizontal gap. A vertical gap starting below row 0 in such a column is then charged
// extend + extend instead of open (+ extend ...): the matrix holds scores no alignment has, the reported
// score is larger than the score of the returned rows (and than the true optimum).
func TestDefect4MaxaInitExtendInsteadOfOpen(t *testing.T) {
	score := func(r1, r2 []uint8, gopen, gext float64) float64 {
		tot, prev := 0.0, 0
		for k := range r1 {
			switch {
			case r1[k] == '-':
				if prev == 1 {
					tot += gext
				} else {
					tot += gopen
				}
				prev = 1
			case r2[k] == '-':
				if prev == 2 {
					tot += gext
				} else {
					tot += gopen
				}
				prev = 2
			default:
				tot += dnafull_subst_matrix[dna_to_matrix_pos[r1[k]]][dna_to_matrix_pos[r2[k]]]
				prev = 0
			}
		}
		return tot
	}
	for _, c := range []struct {
		s1, s2      string
		gopen, gext float64
		optimum     float64
	}{
		{"ANTG", "AYAG", -4, -1, 5},   // reported 7: rows ANTG / A--G score 5 - 4 - 1 + 5 = 5
		{"AGA", "ACAA", -2, -0.5, 8},  // reported 9: rows AGA / A-A score 5 - 2 + 5 = 8
		{"ANTC", "AKAC", -2, -0.5, 7.5}, // reported 8.5
	} {
		a := NewPwAligner(NewSequence("a", []uint8(c.s1), ""), NewSequence("b", []uint8(c.s2), ""), ALIGN_ALGO_SW)
		a.SetGapOpenScore(c.gopen)
		a.SetGapExtendScore(c.gext)
		if _, err := a.Alignment(); err != nil {
			t.Fatal(err)
		}
		got := score(a.Seq1Ali(), a.Seq2Ali(), c.gopen, c.gext)
		if a.MaxScore() != got {
			t.Errorf("%s/%s open %v extend %v: MaxScore() = %v but the returned rows %s / %s score %v", c.s1, c.s2, c.gopen, c.gext, a.MaxScore(), a.Seq1Ali(), a.Seq2Ali(), got)
		}
		if a.MaxScore() != c.optimum {
			t.Errorf("%s/%s open %v extend %v: MaxScore() = %v, optimum is %v", c.s1, c.s2, c.gopen, c.gext, a.MaxScore(), c.optimum)
		}
	}
}
