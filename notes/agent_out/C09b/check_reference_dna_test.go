package align

import (
	"math"
	"math/rand"
	"testing"
)

// independent Gotoh local alignment optimum (gap of length k costs open + (k-1)*extend)
func c9bGotohB(s1, s2 []uint8, sc func(a, b uint8) float64, gopen, gext float64) float64 {
	n, m := len(s1), len(s2)
	ninf := math.Inf(-1)
	H := make([][]float64, n+1)
	E := make([][]float64, n+1)
	F := make([][]float64, n+1)
	for i := range H {
		H[i] = make([]float64, m+1)
		E[i] = make([]float64, m+1)
		F[i] = make([]float64, m+1)
		for j := range H[i] {
			E[i][j], F[i][j] = ninf, ninf
		}
	}
	best := 0.0
	for i := 1; i <= n; i++ {
		for j := 1; j <= m; j++ {
			// a gap may only follow an aligned pair or a gap (H>0 cells); H=0 start followed by a gap is never better
			E[i][j] = math.Max(E[i-1][j]+gext, H[i-1][j]+gopen)
			F[i][j] = math.Max(F[i][j-1]+gext, H[i][j-1]+gopen)
			h := math.Max(0, math.Max(H[i-1][j-1]+sc(s1[i-1], s2[j-1]), math.Max(E[i][j], F[i][j])))
			H[i][j] = h
			if h > best {
				best = h
			}
		}
	}
	return best
}

func c9bRescoreB(r1, r2 []uint8, sc func(a, b uint8) float64, gopen, gext float64) float64 {
	t := 0.0
	prev := 0
	for k := range r1 {
		switch {
		case r1[k] == '-':
			if prev == 1 {
				t += gext
			} else {
				t += gopen
			}
			prev = 1
		case r2[k] == '-':
			if prev == 2 {
				t += gext
			} else {
				t += gopen
			}
			prev = 2
		default:
			t += sc(r1[k], r2[k])
			prev = 0
		}
	}
	return t
}

func TestC9bDiffB(t *testing.T) {
	rng := rand.New(rand.NewSource(1))
	alpha := []uint8("ACGTRYMKNSWBDHV")
	schemes := [][2]float64{{-10, -0.5}, {-2, -0.5}, {-3, -1}, {-1, -0.5}, {-4, -1}, {-1, -1}, {-3,-0.25},{-2.5,-0.125},{-1.5,-0.125},{-6,-0.5},{-5,-1}}
	sc := func(a, b uint8) float64 { return dnafull_subst_matrix[dna_to_matrix_pos[a]][dna_to_matrix_pos[b]] }
	nbad1, nbad2 := 0, 0
	for it := 0; it < 600000; it++ {
		l1, l2 := 1+rng.Intn(3), 1+rng.Intn(8)
		b1 := make([]uint8, l1)
		b2 := make([]uint8, l2)
		for i := range b1 {
			b1[i] = alpha[rng.Intn(len(alpha))]
		}
		for i := range b2 {
			b2[i] = alpha[rng.Intn(len(alpha))]
		}
		g := schemes[rng.Intn(len(schemes))]
		a := NewPwAligner(NewSequence("a", b1, ""), NewSequence("b", b2, ""), ALIGN_ALGO_SW)
		a.SetGapOpenScore(g[0])
		a.SetGapExtendScore(g[1])
		if _, err := a.Alignment(); err != nil {
			t.Fatal(err)
		}
		opt := c9bGotohB(b1, b2, sc, g[0], g[1])
		res := c9bRescoreB(a.Seq1Ali(), a.Seq2Ali(), sc, g[0], g[1])
		if opt > 0 && math.Abs(a.MaxScore()-res) > 1e-9 && nbad1 < 5 {
			nbad1++
			t.Errorf("reported %v != rescored %v (opt %v): %s %s open %v ext %v rows %s / %s", a.MaxScore(), res, opt, b1, b2, g[0], g[1], a.Seq1Ali(), a.Seq2Ali())
		}
		if math.Abs(a.MaxScore()-opt) > 1e-9 && nbad2 < 5 {
			nbad2++
			t.Errorf("reported %v != optimum %v: %s %s open %v ext %v rows %s / %s", a.MaxScore(), opt, b1, b2, g[0], g[1], a.Seq1Ali(), a.Seq2Ali())
		}
	}
}
