package align

import "testing"

// Defect 5: in the first row (and first column) of the matrix fillMatrix_SW decides between "extend the gap"
// and "open a gap" by looking at the TRACE of the previous cell instead of keeping the best gap score as it
// does inside the matrix. When the previous cell is a fresh start (trace DIAG) whose score is only slightly
// better than the gap that runs through it, the gap is dropped: gap + extend > start + open is never tried.
// The reported score is then smaller than the score of an existing local alignment (not optimal).
//   W C W P            BLOSUM62, open -8, extend -0.5
//   W A A A Y A C W E  W/W 11, gap of 5 (AAAYA) = -8 - 4*0.5 = -10, C/C 9, W/W 11  => 21
// the code reports 20 (CW / CW): in row 0 the cell of Y (W/Y = 2 > 1.5) forgets the gap coming from W/W.
func TestDefect5BorderGapDropped(t *testing.T) {
	for _, swap := range []bool{false, true} {
		s1, s2 := "WCWP", "WAAAYACWE"
		if swap { // same defect in the first column
			s1, s2 = s2, s1
		}
		a := NewPwAligner(NewSequence("a", []uint8(s1), ""), NewSequence("b", []uint8(s2), ""), ALIGN_ALGO_SW)
		a.SetGapOpenScore(-8)
		a.SetGapExtendScore(-0.5)
		if _, err := a.Alignment(); err != nil {
			t.Fatal(err)
		}
		if a.MaxScore() != 21 {
			t.Errorf("%s/%s: MaxScore() = %v (rows %s / %s), the alignment W-----CW / WAAAYACW scores 21", s1, s2, a.MaxScore(), a.Seq1Ali(), a.Seq2Ali())
		}
	}
}
