package protein

import (
	"math"
	"testing"
)

// C18: the stationary frequencies Pi(i) of every protein model must sum to 1 (they are the pi of the
// reversible rate matrix Q(i,j) = S(i,j) pi(j), of the normalisation -sum_i pi(i) Q(i,i) = 1 and the limit of P(t)).
// Six of the seven built-in tables carry rounded frequencies that do not: Dayhoff, JTT and LG sum to 1.000001,
// WAG to 0.9999999, HIVB to 0.999999999, AB to 1.000000006 (float64 rounding of a correct table stays below 1e-15).
func TestVerifProtModelFrequenciesSumToOne(t *testing.T) {
	names := []string{"dayoff", "jtt", "mtrev", "lg", "wag", "hivb", "ab"}
	for _, n := range names {
		m, err := NewProtModel(ModelStringToInt(n), false, 1.0)
		if err != nil {
			t.Fatalf("%s: %v", n, err)
		}
		if err = m.InitModel(nil); err != nil {
			t.Fatalf("%s: InitModel: %v", n, err)
		}
		sum := 0.0
		for i := 0; i < m.NState(); i++ {
			sum += m.Pi(i)
		}
		if math.Abs(sum-1.0) > 1e-12 {
			t.Errorf("%s: frequencies sum to %.12f, not 1", n, sum)
		}
	}
}
