package align

import "testing"

// TranslateByReference with a negative phase (the command line documents --phase -1 = "translate in the 3 phases",
// and cmd/translate.go hands translatePhase unchanged to TranslateByReference when --ref-seq is given)
// must report an error like Translate / bufferTranslate do; on the unchanged code it indexes the reference
// row at position -1 and panics.
func TestDefectTranslateByReferenceNegativePhase(t *testing.T) {
	a := NewAlign(NUCLEOTIDS)
	a.AddSequence("ref", "ATGATGATG", "")
	a.AddSequence("s1", "ATGATGATG", "")
	defer func() {
		if r := recover(); r != nil {
			t.Fatalf("TranslateByReference(-1, standard, ref) panicked: %v", r)
		}
	}()
	err := a.TranslateByReference(-1, GENETIC_CODE_STANDARD, "ref")
	if err == nil {
		t.Fatalf("TranslateByReference(-1, ...) returned no error (rows: %d, length %d)", a.NbSequences(), a.Length())
	}
}
