package align

import "testing"

// Reference-guided translation must coincide with plain translation when the alignment has no gaps.
// Plain Translate re-detects the alphabet (AMINOACIDS for a protein result); on the unchanged code
// TranslateByReference leaves the alphabet NUCLEOTIDS on the protein alignment it has just built
// (so e.g. the Nexus writer announces datatype=dna for protein rows and a second translation is not refused).
func TestDefectTranslateByReferenceAlphabet(t *testing.T) {
	mk := func() *align {
		a := NewAlign(NUCLEOTIDS)
		a.AddSequence("ref", "ATGTTTCTGCCACAT", "")
		a.AddSequence("s1", "ATGTTTCTGCCACAG", "")
		return a
	}
	p := mk()
	if err := p.Translate(0, GENETIC_CODE_STANDARD); err != nil {
		t.Fatal(err)
	}
	r := mk()
	if err := r.TranslateByReference(0, GENETIC_CODE_STANDARD, "ref"); err != nil {
		t.Fatal(err)
	}
	for i := range p.seqs {
		if string(p.seqs[i].sequence) != string(r.seqs[i].sequence) {
			t.Fatalf("row %d differs: %s vs %s", i, p.seqs[i].sequence, r.seqs[i].sequence)
		}
	}
	if p.Alphabet() != AMINOACIDS {
		t.Fatalf("plain translation: alphabet %d", p.Alphabet())
	}
	if r.Alphabet() != p.Alphabet() {
		t.Fatalf("same rows (%s, %s) but TranslateByReference leaves alphabet %s where Translate gives %s", r.seqs[0].sequence, r.seqs[1].sequence, r.AlphabetStr(), p.AlphabetStr())
	}
}
