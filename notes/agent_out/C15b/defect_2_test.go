package align

import (
	"math"
	"testing"
)

// RefCoordinates (used by `goalign mask --ref-seq`): refstart+reflen overflows, the range test is skipped and no error is returned;
// the mask command then masks nothing (or a single column for a huge length) instead of reporting the bad window.
func TestDefectC15bRefCoordinatesOverflow(t *testing.T) {
	a := NewAlign(NUCLEOTIDS)
	a.AddSequence("s1", "AC-GT", "")
	a.AddSequence("s2", "ACCGT", "")
	if s, l, err := a.RefCoordinates("s1", math.MaxInt64, 1); err == nil {
		t.Errorf("RefCoordinates(s1, MaxInt64, 1) = (%d, %d, nil): a window starting beyond the 4 residues of s1 must be an error", s, l)
	}
	if s, l, err := a.RefCoordinates("s1", 2, math.MaxInt64); err == nil {
		t.Errorf("RefCoordinates(s1, 2, MaxInt64) = (%d, %d, nil): a window longer than the row must be an error", s, l)
	}
}
