package align

import "testing"

// MaskOccurences / MaskUnique index their 130-entry tables with the residue byte: a byte >= 130 panics
// (obligation align.(*align).MaskOccurences#index:occurences[int(r)]#1 when the contract's byte-range precondition is dropped).
func TestDefectC15bMaskUniqueHighByte(t *testing.T) {
	a := NewAlign(AMINOACIDS)
	a.AddSequenceChar("s1", []uint8{'A', 200}, "")
	a.AddSequenceChar("s2", []uint8{'A', 'C'}, "")
	defer func() {
		if r := recover(); r != nil {
			t.Errorf("MaskUnique panicked: %v", r)
		}
	}()
	if err := a.MaskUnique("", "AMBIG"); err != nil {
		t.Logf("error (fine): %v", err)
	}
}
