package dna

// Observation (not claimed as a C08 defect; same class as the known finding "Length() is -1 when there
// is no row"): DistMatrix on an EMPTY nucleotide alignment panics in selectedSites
// (make([]bool, al.Length()) with Length() == -1) instead of returning an empty matrix or an error.
// Obligation without the precondition al.length >= 0:  distance/dna.selectedSites#makeslice:make([]bool, al.Length())#1

import (
	"testing"

	"github.com/evolbioinfo/goalign/align"
)

func TestObservationDistMatrixEmptyAlignment(t *testing.T) {
	defer func() {
		if r := recover(); r != nil {
			t.Fatalf("DistMatrix on an empty alignment panics: %v", r)
		}
	}()
	al := align.NewAlign(align.NUCLEOTIDS)
	DistMatrix(al, nil, NewJCModel(false), -1, -1, -1, -1, false, 0, 1)
}
