package dna

// Defect 2 (C08): the workers of DistMatrix share the named result `err` and assign it at EVERY
// model.Distance call (`outmatrix[i][j], err = model.Distance(...)`): a worker whose evaluation
// succeeds clears the error another worker has just recorded. With two or more workers the error
// of a failed model evaluation is lost and DistMatrix returns err == nil with a bogus cell.
// (On the unchanged code the call hangs first - defect 1; with only the fix of defect 1 applied
// the error is lost.)
// Exposed by the obligation  distance/dna.DistMatrix$2#inv-pres:loop1:old(err) != nil ==> err != nil
//
// Run: tools/runpkgtest.sh distance/dna defect_2_test.go TestDefectDistMatrixErrorLost

import (
	"errors"
	"sync/atomic"
	"testing"
	"time"

	"github.com/evolbioinfo/goalign/align"
)

// slowFailingModel fails (immediately) at the first pair evaluated; every other evaluation takes 30ms,
// so that it finishes after the failure has been recorded.
type slowFailingModel struct {
	JCModel
	n int32
}

func (m *slowFailingModel) Distance(seq1 []uint8, seq2 []uint8, weights []float64) (float64, error) {
	if atomic.AddInt32(&m.n, 1) == 1 {
		return 0, errors.New("evaluation failed")
	}
	time.Sleep(30 * time.Millisecond)
	return m.JCModel.Distance(seq1, seq2, weights)
}

func TestDefectDistMatrixErrorLost(t *testing.T) {
	al := align.NewAlign(align.NUCLEOTIDS)
	al.AddSequence("a", "ACGTACGT", "")
	al.AddSequence("b", "ACGTACGA", "")
	al.AddSequence("c", "ACGAACGA", "")
	al.AddSequence("d", "ACGAACTA", "")
	m := &slowFailingModel{JCModel: *NewJCModel(false)}
	errc := make(chan error, 1)
	go func() {
		_, err := DistMatrix(al, nil, m, -1, -1, -1, -1, false, 0, 2)
		errc <- err
	}()
	select {
	case err := <-errc:
		if err == nil {
			t.Fatalf("a model evaluation failed but DistMatrix (2 workers) returned err == nil: the error was overwritten by another worker")
		}
	case <-time.After(3 * time.Second): // watchdog
		t.Fatalf("DistMatrix did not return within 3s after a model evaluation error")
	}
}
