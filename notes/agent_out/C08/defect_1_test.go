package dna

// Defect 1 (C08): a worker goroutine of DistMatrix that gets an error from
// model.Distance returns WITHOUT calling wg.Done(); wg.Wait() then never returns:
// the call hangs instead of returning the error.
// Exposed by the obligation  distance/dna.DistMatrix$2#post:gf(wgdone, wg) == old(gf(wgdone, wg)) + 1
//
// Run: tools/runpkgtest.sh distance/dna defect_1_test.go TestDefectDistMatrixErrorHangs

import (
	"errors"
	"testing"
	"time"

	"github.com/evolbioinfo/goalign/align"
)

// failingModel: a caller-supplied DistModel whose evaluation fails at the k-th pair.
type failingModel struct {
	JCModel
	k, n int
}

func (m *failingModel) Distance(seq1 []uint8, seq2 []uint8, weights []float64) (float64, error) {
	m.n++ // one worker in the test: no race
	if m.n == m.k {
		return 0, errors.New("evaluation failed")
	}
	return m.JCModel.Distance(seq1, seq2, weights)
}

func TestDefectDistMatrixErrorHangs(t *testing.T) {
	for k := 1; k <= 3; k++ {
		al := align.NewAlign(align.NUCLEOTIDS)
		al.AddSequence("a", "ACGTACGT", "")
		al.AddSequence("b", "ACGTACGA", "")
		al.AddSequence("c", "ACGAACGA", "")
		m := &failingModel{JCModel: *NewJCModel(false), k: k}
		type res struct {
			m   [][]float64
			err error
		}
		done := make(chan res, 1)
		go func() {
			mat, err := DistMatrix(al, nil, m, -1, -1, -1, -1, false, 0, 1)
			done <- res{mat, err}
		}()
		select {
		case r := <-done:
			if r.err == nil {
				t.Fatalf("k=%d: model evaluation failed but DistMatrix returned err == nil", k)
			}
		case <-time.After(3 * time.Second): // watchdog
			t.Fatalf("k=%d: DistMatrix did not return within 3s after a model evaluation error (worker returned without wg.Done())", k)
		}
	}
}
