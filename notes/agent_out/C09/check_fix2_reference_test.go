package align

import (
	"math/rand"
	"testing"
)

// brute-force Gotoh local alignment score (match/mismatch, affine gaps: first gap column costs open, next ones extend)
func refScore(s1, s2 string, ma, mi, op, ex float64) float64 {
	n, m := len(s1), len(s2)
	neg := -1e18
	H := make([][]float64, n+1)
	E := make([][]float64, n+1)
	F := make([][]float64, n+1)
	for i := range H {
		H[i] = make([]float64, m+1)
		E[i] = make([]float64, m+1)
		F[i] = make([]float64, m+1)
		for j := range E[i] {
			E[i][j], F[i][j] = neg, neg
		}
	}
	best := 0.0
	for i := 1; i <= n; i++ {
		for j := 1; j <= m; j++ {
			E[i][j] = max(E[i][j-1]+ex, H[i][j-1]+op)
			F[i][j] = max(F[i-1][j]+ex, H[i-1][j]+op)
			s := mi
			if s1[i-1] == s2[j-1] {
				s = ma
			}
			H[i][j] = max(0, H[i-1][j-1]+s, E[i][j], F[i][j])
			best = max(best, H[i][j])
		}
	}
	return best
}

func rescore(r1, r2 string, ma, mi, op, ex float64) float64 {
	sc := 0.0
	for k := range r1 {
		switch {
		case r1[k] == '-':
			if k > 0 && r1[k-1] == '-' {
				sc += ex
			} else {
				sc += op
			}
		case r2[k] == '-':
			if k > 0 && r2[k-1] == '-' {
				sc += ex
			} else {
				sc += op
			}
		case r1[k] == r2[k]:
			sc += ma
		default:
			sc += mi
		}
	}
	return sc
}

func TestCheckFix2(t *testing.T) {
	rng := rand.New(rand.NewSource(1))
	al := "ACGT"
	bad := 0
	for it := 0; it < 20000 && bad < 10; it++ {
		mk := func() string {
			n := 1 + rng.Intn(7)
			b := make([]byte, n)
			for i := range b {
				b[i] = al[rng.Intn(2+rng.Intn(3))]
			}
			return string(b)
		}
		s1, s2 := mk(), mk()
		ma, mi, op, ex := 2.0, -1.0, -3.0, -1.0
		a := NewPwAligner(NewSequence("s1", []uint8(s1), ""), NewSequence("s2", []uint8(s2), ""), ALIGN_ALGO_SW)
		a.SetScore(ma, mi)
		a.SetGapOpenScore(op)
		a.SetGapExtendScore(ex)
		if _, err := a.Alignment(); err != nil {
			t.Fatal(err)
		}
		ref := refScore(s1, s2, ma, mi, op, ex)
		r1, r2 := string(a.Seq1Ali()), string(a.Seq2Ali())
		if ref > 0 && (a.MaxScore() != ref || rescore(r1, r2, ma, mi, op, ex) != ref) {
			bad++
			t.Errorf("%s vs %s: reported %v, rows %s/%s rescored %v, reference optimum %v", s1, s2, a.MaxScore(), r1, r2, rescore(r1, r2, ma, mi, op, ex), ref)
		}
	}
}
