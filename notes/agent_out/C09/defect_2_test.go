package align

import "testing"

// Defect 2 (C09, score/consistency; demonstrated by test, outside the proved contract):
// the running maximum (maxscore, maxi, maxj) is only updated in the inner cells (i >= 1, j >= 1) of
// fillMatrix_SW. A best local alignment ending in the first row or first column is never seen.
func swRun(s1, s2 string) (score float64, r1, r2 string, a *pwaligner) {
	a = NewPwAligner(NewSequence("s1", []uint8(s1), ""), NewSequence("s2", []uint8(s2), ""), ALIGN_ALGO_SW)
	if _, err := a.Alignment(); err != nil {
		panic(err)
	}
	return a.MaxScore(), string(a.Seq1Ali()), string(a.Seq2Ali()), a
}

func TestDefectSWFirstRowColumnIgnored(t *testing.T) {
	// 'A' against 'A' with DNAfull: the only local alignment A/A scores 5
	if sc, r1, r2, _ := swRun("A", "A"); sc != 5 {
		t.Errorf("A vs A: reported score %v for rows %q/%q, want 5", sc, r1, r2)
	}
	// the best local alignment is the final A of seq1 against A (score 5); the aligner reports T/A
	if sc, r1, r2, _ := swRun("TTTA", "A"); sc != 5 || r1 != "A" || r2 != "A" {
		t.Errorf("TTTA vs A: reported score %v rows %q/%q, want 5 A/A", sc, r1, r2)
	}
}

// The trace-back does not stop on a zero cell of the first row/column: a mismatching first column is
// prepended and the reported score is not the score of the returned rows.
func TestDefectSWScoreOfReturnedRows(t *testing.T) {
	sc, r1, r2, a := swRun("CA", "GA")
	// score of the returned rows under DNAfull (match 5, mismatch -4)
	got := 0.0
	for k := range r1 {
		if r1[k] == r2[k] {
			got += 5
		} else {
			got += -4
		}
	}
	if sc != got || a.NbMisMatches() != 0 {
		t.Errorf("CA vs GA: reported score %v but rows %q/%q score %v (mismatches %d); a local alignment must not start with a mismatch", sc, r1, r2, got, a.NbMisMatches())
	}
}
