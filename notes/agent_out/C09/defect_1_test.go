package align

import "testing"

// Defect 1 (C09, no-panic): the local aligner panics when either sequence is empty.
// Obligations: align.(*pwaligner).fillMatrix_SW>(*seq).CharAt#index:s.sequence[i] (first row / first column),
// align.(*pwaligner).fillMatrix_SW#post:err == nil ==> 0 <= a.maxi && a.maxi < len1(a) ... (both empty, then
// backTrack_SW indexes trace[0][0]).
func alignNoPanic(t *testing.T, s1, s2 string) {
	defer func() {
		if r := recover(); r != nil {
			t.Errorf("Alignment(%q, %q) panicked: %v", s1, s2, r)
		}
	}()
	a := NewPwAligner(NewSequence("s1", []uint8(s1), ""), NewSequence("s2", []uint8(s2), ""), ALIGN_ALGO_SW)
	_, _ = a.Alignment()
}

func TestDefectSWEmptySequencePanics(t *testing.T) {
	alignNoPanic(t, "", "A")
	alignNoPanic(t, "A", "")
	alignNoPanic(t, "", "")
	alignNoPanic(t, "ACGT", "")
}
