package align

import "testing"

// Defect 3 (C09, "both rows have length Length()"): length, nbmatches, nbmismatches and nbgaps are never reset;
// a second call of Alignment() on the same aligner doubles them while the rows stay the same.
// Obligation (with the clause `a.length == len(a.seq1ali)` in the contract of Alignment): the proved form is
// counts(...) relative to old(): a.length == old(a.length) + len(a.seq1ali).
func TestDefectSWCountersAccumulate(t *testing.T) {
	a := NewPwAligner(NewSequence("s1", []uint8("ACGTACGT"), ""), NewSequence("s2", []uint8("ACGTACGT"), ""), ALIGN_ALGO_SW)
	if _, err := a.Alignment(); err != nil {
		t.Fatal(err)
	}
	l1, m1 := a.Length(), a.NbMatches()
	if _, err := a.Alignment(); err != nil {
		t.Fatal(err)
	}
	if a.Length() != len(a.Seq1Ali()) || a.Length() != l1 || a.NbMatches() != m1 {
		t.Errorf("second Alignment(): Length()=%d NbMatches()=%d, rows have %d columns (first call: %d, %d)", a.Length(), a.NbMatches(), len(a.Seq1Ali()), l1, m1)
	}
}
