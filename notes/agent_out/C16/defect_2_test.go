package align

import "testing"

// Defect 2 (C16): (*seq).LongestORF collects NON-OVERLAPPING regular-expression matches, so an ORF that
// starts (in another frame) inside an earlier, shorter ORF is never seen: the "longest ORF" used as the
// reference by Phase(nil, seqs) is not a longest ATG..first-in-frame-stop ORF of the sequences.
// (regexp is library code: not reachable by a govc obligation; found while writing the contract of
// (*seqbag).LongestORF, whose maximality clause could not be stated truthfully.)
func TestDefect2LongestORFOverlappingFrames(t *testing.T) {
	//            0         1         2
	//            0123456789012345678901234
	const nt = "ATGCATGCCTAACCCCCCCCCCTAG"
	// frame 0: ATG CAT GCC TAA            -> ORF [0,12)  (12 nt)
	// frame 1: ATG CCT AAC CCC CCC CCC TAG -> ORF [4,25)  (21 nt)
	s := NewSequence("s", []uint8(nt), "")
	st, en := s.LongestORF()
	if st != 4 || en != 25 {
		t.Errorf("(*seq).LongestORF = [%d,%d) (%s), a longer ORF exists at [4,25) (%s)", st, en, nt[st:en], nt[4:25])
	}
	sb := NewSeqBag(UNKNOWN)
	sb.AddSequence("s", nt, "")
	sb.AutoAlphabet()
	orf, err := sb.LongestORF(false)
	if err != nil {
		t.Fatal(err)
	}
	if orf.Length() != 21 {
		t.Errorf("(*seqbag).LongestORF returns %s (%d nt); the sequence contains the ORF %s (21 nt)", orf.Sequence(), orf.Length(), nt[4:25])
	}
}
