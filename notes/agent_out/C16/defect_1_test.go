package align

import "testing"

// Defect 1 (C16): alignAgainstRefsAA / alignAgainstRefsNT dereference a nil `bestseq` when no reference
// aligns with a positive score in any phase/strand (or when the reference list is empty): the worker
// goroutine panics (nil pointer dereference at phaser.go:321 / :414) and the whole process dies.
// Exposed by obligations  align.(*phaser).alignAgainstRefsAA#nil:align/phaser.go:321#1  and
// align.(*phaser).alignAgainstRefsNT#nil:align/phaser.go:414#1 .
func testC16NoPositiveScore(t *testing.T, translate bool) {
	orfs := NewSeqBag(UNKNOWN)
	orfs.AddSequence("orf", "ATGAAAAAAAAATAA", "")
	orfs.AutoAlphabet()
	in := NewSeqBag(UNKNOWN)
	in.AddSequence("s0", "CCCCCCCCCCCC", "")
	in.AutoAlphabet()
	ph := NewPhaser()
	ph.SetTranslate(translate, GENETIC_CODE_STANDARD)
	c, err := ph.Phase(orfs, in)
	if err != nil {
		t.Fatal(err)
	}
	n := 0
	for r := range c {
		n++
		if r.Err == nil && (r.NtSeq == nil || r.NtSeq.Name() != "s0") {
			t.Errorf("result does not name its input sequence")
		}
	}
	if n != 1 {
		t.Errorf("translate=%v: %d results for 1 input sequence", translate, n)
	}
}

func TestDefect1PhaseNothingAlignsAA(t *testing.T) { testC16NoPositiveScore(t, true) }
func TestDefect1PhaseNothingAlignsNT(t *testing.T) { testC16NoPositiveScore(t, false) }
