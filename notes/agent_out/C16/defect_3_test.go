package align

import "testing"

// Defect 3 (C16): alignAgainstRefsNT computes the codon window as [beststart+phase : bestend] with
// phase = (3 - nbgapstart%3) % 3, without checking that the trimmed sequence has `phase` bases: when the
// alignment starts with 1 (or 2) gaps in the sequence row and covers fewer than 2 (or 1) bases up to the end of
// the sequence, the slice expression panics (slice bounds out of range [4:3]) and the worker goroutine dies.
// Exposed by obligation  align.(*phaser).alignAgainstRefsNT#slice:PhasedSequence{ Err: nil, Removed: false, Position: beststar#2 .
// Reference ACGGG, sequence TTC, gap-open -1 (public setter): best alignment  AC / -C  at the last base.
func TestDefect3PhaseNTCodonWindow(t *testing.T) {
	orfs := NewSeqBag(UNKNOWN)
	orfs.AddSequence("orf", "ACGGG", "")
	orfs.AutoAlphabet()
	in := NewSeqBag(UNKNOWN)
	in.AddSequence("s0", "TTC", "")
	in.AutoAlphabet()
	ph := NewPhaser()
	ph.SetTranslate(false, GENETIC_CODE_STANDARD)
	ph.SetGapOpen(-1)
	ph.SetLenCutoff(-1)
	ph.SetMatchCutoff(-1)
	c, err := ph.Phase(orfs, in)
	if err != nil {
		t.Fatal(err)
	}
	n := 0
	for range c {
		n++
	}
	if n != 1 {
		t.Errorf("%d results for 1 input sequence", n)
	}
}
