//go:build verif

package models

// Contracts for the verification machinery (govc), property C20: discrete-gamma
// rate categories. Comments only. Extended-real float model.

//@ func IncompleteGamma
//@   props C20 C19
//@   float xreal
//@   requires isfin(x) && isfin(alpha) && isfin(ln_gamma_alpha)
//@   ensures isfin(result)
//@   ensures fin(x) == 0.0 ==> fin(result) == 0.0
//@   ensures fin(x) <= 0.0 - 1.0e-300 ==> fin(result) == 0.0 - 1.0
//@   ensures fin(x) >= 1.0e-300 && fin(alpha) <= 0.0 ==> fin(result) == 0.0 - 1.0
//@   ensures fin(x) >= 1.0e-300 && fin(alpha) > 0.0 && (fin(x) <= 1.0 || fin(x) < fin(alpha)) ==> fin(result) > 0.0
//@   modifies nothing
//@   loop 1
//@     invariant fin(x) > 0.0 && fin(p) > 0.0 && fin(term) > 0.0 && fin(gin) > 0.0 && fin(factor) > 0.0
//@     invariant isfin(term) && isfin(gin) && isfin(rn) && fin(rn) >= fin(p) && isfin(factor)
//@   loop 2
//@     invariant len(pn) == 6 && fresh(pn) && isfin(factor) && isfin(a) && isfin(b) && isfin(term)
//@   loop 3
//@     invariant len(pn) == 6 && fresh(pn) && 0 <= i
//@   loop 4
//@     invariant len(pn) == 6 && fresh(pn) && 0 <= i
//@   loop 5
//@     invariant len(pn) == 6 && fresh(pn) && 0 <= i

// Rates of the ncat equiprobable categories of a Gamma(alpha, alpha) distribution. Proved: one finite
// rate per category and the rates sum to ncat (average 1) -- the sum telescopes over the category
// bounds, whatever values IncompleteGamma returns. fsum(s, n) is the built-in sum of s[0..n).
//@ pure func finupto(s []float64, n int) bool = forall k :: 0 <= k && k < n ==> isfin(s[k])

//@ func DiscreteGamma
//@   props C20 C19
//@   float xreal
//@   requires isfin(alpha) && fin(alpha) >= 0.001 && fin(alpha) <= 170.0 && ncat >= 2 && ncat <= 1000
//@   ensures len(result) == ncat && fresh(result)
//@   ensures finupto(result, ncat)
//@   ensures fsum(result, ncat) == real(ncat)
//@   modifies nothing
//@   loop 1
//@     invariant 0 <= i && i <= ncat - 1
//@     invariant len(freq) == ncat && fresh(freq) && len(r) == ncat && fresh(r) && base(r) != base(freq)
//@     invariant forall k :: 0 <= k && k < i ==> isfin(freq[k]) && fin(freq[k]) >= 0.0
//@     invariant finupto(r, ncat)
//@     decreases ncat - i
//@   loop 2
//@     invariant 0 <= i && i <= ncat - 1
//@     invariant len(freq) == ncat && fresh(freq) && len(r) == ncat && fresh(r) && base(r) != base(freq)
//@     invariant finupto(freq, ncat - 1)
//@     invariant forall k :: i <= k && k < ncat - 1 ==> fin(freq[k]) >= 0.0
//@     invariant finupto(r, ncat)
//@     decreases ncat - i
//@   loop 3
//@     invariant 1 <= i && i <= ncat - 1
//@     invariant len(freq) == ncat && fresh(freq) && len(r) == ncat && fresh(r) && base(r) != base(freq)
//@     invariant finupto(freq, ncat - 1) && finupto(r, ncat)
//@     invariant fin(r[ncat-1]) == (1.0 - fin(freq[ncat-2])) * fin(factor)
//@     invariant fsum(r, i) == fin(freq[i-1]) * fin(factor)
//@     decreases ncat - i

// One rate and one category per site. Continuous gamma: finite non-negative rates (range of the
// gonum sampler, assumed). Discrete without gamma or with fewer than 2 categories: every rate is 1
// in category 0. Discrete gamma: every category index is within 0..ncat-1 and every rate is finite.
//@ func GenerateRates
//@   props C20
//@   float xreal
//@   requires nsites >= 0
//@   requires (!discrete || (gamma && ncat >= 2)) ==> isfin(alpha) && fin(alpha) >= 0.001 && fin(alpha) <= 170.0
//@   requires discrete && gamma ==> ncat <= 1000
//@   ensures len(rates) == nsites && fresh(rates) && len(categories) == nsites && fresh(categories)
//@   ensures finupto(rates, nsites)
//@   ensures !discrete ==> (forall k :: 0 <= k && k < nsites ==> fin(rates[k]) >= 0.0 && categories[k] == 0)
//@   ensures discrete && (!gamma || ncat < 2) ==> (forall k :: 0 <= k && k < nsites ==> fin(rates[k]) == 1.0 && categories[k] == 0)
//@   ensures discrete && gamma && ncat >= 2 ==> (forall k :: 0 <= k && k < nsites ==> 0 <= categories[k] && categories[k] < ncat)
//@   modifies nothing
//@   loop 1
//@     invariant 0 <= i && i <= nsites && len(rates) == nsites && fresh(rates) && len(categories) == nsites && fresh(categories)
//@     invariant forall k :: 0 <= k && k < i ==> isfin(rates[k]) && fin(rates[k]) >= 0.0
//@     invariant finupto(rates, nsites)
//@     invariant forall k :: 0 <= k && k < nsites ==> categories[k] == 0
//@     decreases nsites - i
//@   loop 2
//@     invariant len(rates) == nsites && fresh(rates) && len(categories) == nsites && fresh(categories)
//@     invariant forall k :: 0 <= k && k < $i ==> isfin(rates[k]) && fin(rates[k]) == 1.0
//@     invariant finupto(rates, nsites)
//@     invariant forall k :: 0 <= k && k < nsites ==> categories[k] == 0
//@   loop 3
//@     invariant 0 <= i && i <= nsites && len(rates) == nsites && fresh(rates) && len(categories) == nsites && fresh(categories)
//@     invariant len(discreteRates) == ncat && finupto(discreteRates, ncat) && base(discreteRates) != base(rates)
//@     invariant finupto(rates, nsites)
//@     invariant forall k :: 0 <= k && k < nsites ==> 0 <= categories[k] && categories[k] < ncat
//@     decreases nsites - i
