//go:build verif

package dna

// Contracts for the verification machinery (govc), property C20: bootstrap
// weight vectors. Comments only. Extended-real float model; fsum(s, n) is the
// built-in sum of the values s[0..n).

//@ pure func posfin(s []float64, lo int, hi int) bool = forall k :: lo <= k && k < hi ==> isfin(s[k]) && fin(s[k]) > 0.0

//@ func BuildWeightsGamma
//@   props C20
//@   float xreal
//@   requires al != nil && al.length >= 2
//@   ensures len(result) == al.length && fresh(result)
//@   ensures posfin(result, 0, al.length)
//@   ensures fsum(result, al.length) == real(al.length)
//@   modifies nothing
//@   assert_at github.com/evolbioinfo/goalign/stats.Gamma 1 : isfin(arg0) && fin(arg0) > 1.0 && isfin(arg1) && fin(arg1) > 0.0
//@   loop 1
//@     invariant 0 <= i && i <= al.length && len(outweights) == al.length && fresh(outweights)
//@     invariant isfin(alpha) && fin(alpha) > 1.0 && isfin(beta) && fin(beta) > 0.0
//@     invariant isfin(total) && fin(total) == fsum(outweights, i) && fin(total) >= 0.0 && (i > 0 ==> fin(total) > 0.0)
//@     invariant posfin(outweights, 0, i)
//@     decreases al.length - i
//@   loop 2
//@     invariant 0 <= i && i <= al.length && len(outweights) == al.length && fresh(outweights)
//@     invariant isfin(total) && fin(total) > 0.0
//@     invariant posfin(outweights, 0, al.length)
//@     invariant real(al.length) * (fin(total) - (fsum(outweights, al.length) - fsum(outweights, i))) == fsum(outweights, i) * fin(total)
//@     decreases al.length - i

// D(L; 1,...,1) through stats.Dirichlet; the error of Dirichlet is dropped by the code, so the
// length condition (at least 3 sites, as in the property) is what keeps the result non-nil
//@ func BuildWeightsDirichlet
//@   props C20
//@   float xreal
//@   requires al != nil && al.length >= 3
//@   ensures len(result) == al.length && fresh(result)
//@   ensures posfin(result, 0, al.length)
//@   ensures fsum(result, al.length) == real(al.length)
//@   modifies nothing
//@   loop 1
//@     invariant 0 <= i && i <= al.length && len(alpha) == al.length && fresh(alpha)
//@     invariant forall k :: 0 <= k && k < i ==> isfin(alpha[k]) && fin(alpha[k]) == 1.0
//@     decreases al.length - i
