package stats

import (
	"math"
	"testing"
	"time"
)

// Dirichlet must report invalid parameters as errors. A NaN (or +Inf) shape
// parameter passes the `a <= 0.0` validation and the gamma sampler then
// rejects every candidate: the call never returns.
func TestDefectDirichletNaNAlpha(t *testing.T) {
	for _, bad := range []float64{math.NaN(), math.Inf(1)} {
		done := make(chan error, 1)
		go func() {
			_, err := Dirichlet(1.0, 1.0, bad, 1.0)
			done <- err
		}()
		select {
		case err := <-done:
			if err == nil {
				t.Errorf("Dirichlet(1, 1, %v, 1): no error reported for an invalid parameter", bad)
			}
		case <-time.After(2 * time.Second):
			t.Errorf("Dirichlet(1, 1, %v, 1): no error reported, the call does not return (sampler rejects forever)", bad)
		}
	}
}

// Same for the exported sampler: Gamma validates with !(alpha > 0) (NaN is caught) but +Inf is not.
func TestDefectGammaInfAlpha(t *testing.T) {
	done := make(chan float64, 1)
	go func() { done <- Gamma(math.Inf(1), 1.0) }()
	select {
	case <-done:
	case <-time.After(2 * time.Second):
		t.Errorf("Gamma(+Inf, 1): the call does not return")
	}
}
