package models

import "testing"

func TestObsDiscreteGammaLargeAlpha(t *testing.T) {
	for _, a := range []float64{0.01, 1, 100, 170, 172, 200} {
		r := DiscreteGamma(a, 4)
		s := 0.0
		for _, x := range r {
			s += x
		}
		t.Logf("alpha=%v rates=%v sum=%v", a, r, s)
	}
}
