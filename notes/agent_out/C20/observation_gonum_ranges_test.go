package models

import (
	"math"
	"testing"

	"gonum.org/v1/gonum/stat/distuv"
)

func TestQuantileRange(t *testing.T) {
	for _, a := range []float64{0.001, 0.003, 0.01, 0.02, 0.05, 0.1, 0.3, 0.5, 0.9, 1, 1.5, 2, 5, 10, 50, 100, 150, 170, 200} {
		for _, b := range []float64{0.001, 1, 200} {
			g := distuv.Gamma{Alpha: a, Beta: b}
			for _, p := range []float64{0.001, 0.002, 0.01, 0.03125, 0.25, 0.5, 0.75, 0.96875, 0.99, 0.998, 0.999} {
				q := g.Quantile(p)
				if math.IsNaN(q) || math.IsInf(q, 0) || q < 0 {
					t.Errorf("a=%v b=%v p=%v q=%v", a, b, p, q)
				}
			}
			for i := 0; i < 1000; i++ {
				r := g.Rand()
				if math.IsNaN(r) || math.IsInf(r, 0) || r < 0 {
					t.Errorf("rand a=%v b=%v r=%v", a, b, r)
				}
			}
		}
		x := math.Gamma(a + 1)
		if math.IsInf(x, 0) || !(x > 0) {
			t.Errorf("Gamma(%v)=%v", a+1, x)
		}
	}
	t.Log(math.Gamma(1e-300), math.Gamma(171), math.Gamma(1e-320))
}
