package stats

import "testing"

// Observation (outside the exact-real model): for small shapes the variate underflows to 0.
func TestObsGammaUnderflow(t *testing.T) {
	zeros := 0
	for i := 0; i < 200000; i++ {
		if Gamma(0.01, 1.0) == 0 {
			zeros++
		}
	}
	t.Logf("Gamma(0.01,1): %d zeros out of 200000", zeros)
	if zeros > 0 {
		t.Errorf("Gamma(0.01, 1) returned exactly 0 %d times", zeros)
	}
}
