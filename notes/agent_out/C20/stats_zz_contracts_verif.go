//go:build verif

package stats

// Contracts for the verification machinery (govc), property C20. Comments only.
// Floats: extended-real model (NaN and the infinities exact, finite values exact
// reals, rounding ignored). fsum(s, n) is the built-in sum of the values s[0..n).

// ---- gamma variate sampler ----
// A NaN or infinite shape makes every candidate be rejected (the loops never
// exit), so a finite positive shape and scale are the sampler's precondition;
// the callers have to validate.

//@ pure func goodpar(x float64) bool = isfin(x) && (isfin(x) ==> fin(x) > 0.0)

//@ func gamma
//@   props C20
//@   float xreal
//@   requires goodpar(alpha)
//@   requires goodpar(beta)
//@   ensures isfin(result) && fin(result) >= 0.0
//@   ensures fin(alpha) >= 1.0 ==> fin(result) > 0.0
// NOT COVERED (counter-model, not reproducible by a test): `ensures fin(result) > 0.0` for every shape.
// For alpha < 1 a draw u == 0.0 of rand.Float64 (probability 2^-53) gives p = 0, x = 0 and is accepted,
// so the sampler returns exactly 0. With the redraw of hardening_gamma_u0.patch the clause is proved.
//@   modifies nothing
//@   loop 2
//@     invariant isfin(u) && fin(u) >= 0.0 && fin(u) < 1.0

//@ func Gamma
//@   props C20
//@   float xreal
//@   allowexit
//@   ensures goodpar(alpha) && goodpar(beta)
//@   ensures isfin(result) && fin(result) >= 0.0
//@   ensures fin(alpha) >= 1.0 ==> fin(result) > 0.0
//@   modifies nothing

// ---- Dirichlet ----

//@ pure func badalpha(a float64) bool = !(isfin(a) && fin(a) > 0.0)
//@ pure func allfin(s []float64, n int) bool = forall k :: 0 <= k && k < n ==> isfin(s[k])
//@ pure func allnan(s []float64, n int) bool = forall k :: 0 <= k && k < n ==> isnan(s[k])
//@ pure func allge1(s []float64, n int) bool = forall k :: 0 <= k && k < n ==> isfin(s[k]) && fin(s[k]) >= 1.0

//@ func Dirichlet
//@   props C20
//@   float xreal
//@   requires isfin(factor)
//@   ensures (err != nil) == (len(alpha) <= 2 || (exists k :: 0 <= k && k < len(alpha) && badalpha(alpha[k])))
//@   ensures err == nil ==> len(sample) == len(alpha) && fresh(sample)
//@   ensures err == nil ==> allnan(sample, len(alpha)) || (allfin(sample, len(alpha)) && fsum(sample, len(alpha)) == fin(factor))
// (the all-NaN alternative is the case where every gamma variate is 0, possible only when every alpha < 1
// and every uniform draw is exactly 0, see gamma; with the hardening patch the alternative disappears)
//@   ensures err == nil && (exists k :: 0 <= k && k < len(alpha) && fin(alpha[k]) >= 1.0) ==> allfin(sample, len(alpha)) && fsum(sample, len(alpha)) == fin(factor)
//@   ensures err == nil && fin(factor) > 0.0 && allge1(alpha, len(alpha)) ==> (forall k :: 0 <= k && k < len(alpha) ==> fin(sample[k]) > 0.0)
//@   modifies nothing
//@   loop 1
//@     invariant len(sample) == len(alpha) && fresh(sample) && err == nil
//@     invariant forall k :: 0 <= k && k < $i ==> !badalpha(alpha[k])
//@     invariant isfin(sum) && fin(sum) == fsum(sample, $i) && fin(sum) >= 0.0
//@     invariant forall k :: 0 <= k && k < $i ==> isfin(sample[k]) && fin(sample[k]) >= 0.0
//@     invariant fin(sum) == 0.0 ==> (forall k :: 0 <= k && k < $i ==> fin(sample[k]) == 0.0)
//@     invariant (exists k :: 0 <= k && k < $i && fin(alpha[k]) >= 1.0) ==> fin(sum) > 0.0
//@     invariant forall k :: 0 <= k && k < $i && fin(alpha[k]) >= 1.0 ==> fin(sample[k]) > 0.0
//@   loop 2
//@     invariant len(sample) == len(alpha) && fresh(sample) && err == nil
//@     invariant forall k :: $i <= k && k < len(alpha) ==> isfin(sample[k]) && fin(sample[k]) >= 0.0
//@     invariant forall k :: $i <= k && k < len(alpha) && fin(alpha[k]) >= 1.0 ==> fin(sample[k]) > 0.0
//@     invariant fin(sum) == 0.0 ==> (forall k :: $i <= k && k < len(alpha) ==> fin(sample[k]) == 0.0) && allnan(sample, $i)
//@     invariant isfin(sum) && fin(sum) >= 0.0
//@     invariant fin(sum) > 0.0 ==> allfin(sample, len(alpha))
//@     invariant fin(sum) > 0.0 ==> fin(factor) * (fin(sum) - (fsum(sample, len(alpha)) - fsum(sample, $i))) == fsum(sample, $i) * fin(sum)
//@     invariant fin(factor) > 0.0 && fin(sum) > 0.0 ==> (forall k :: 0 <= k && k < $i && fin(alpha[k]) >= 1.0 ==> fin(sample[k]) > 0.0)

// ---- Dirichlet1: spacings of sorted uniforms ----

//@ func Dirichlet1
//@   props C20
//@   float xreal
//@   requires isfin(factor)
//@   ensures (err != nil) == (nvalues <= 2)
//@   ensures err == nil ==> len(sample) == nvalues && fresh(sample)
//@   ensures err == nil ==> allfin(sample, nvalues) && fsum(sample, nvalues) == fin(factor)
//@   ensures err == nil && fin(factor) >= 0.0 ==> (forall k :: 0 <= k && k < nvalues ==> fin(sample[k]) >= 0.0)
//@   modifies nothing
//@   loop 1
//@     invariant 2 <= i && i <= nvalues + 1 && err == nil
//@     invariant len(sample) == nvalues && fresh(sample) && len(intervals) == nvalues + 1 && fresh(intervals) && base(sample) != base(intervals)
//@     invariant isfin(intervals[0]) && fin(intervals[0]) == 0.0 && isfin(intervals[1]) && fin(intervals[1]) == 1.0
//@     invariant forall k :: 0 <= k && k < i ==> isfin(intervals[k]) && 0.0 <= fin(intervals[k]) && fin(intervals[k]) <= 1.0
//@   loop 2
//@     invariant 1 <= i && i <= nvalues + 1 && err == nil
//@     invariant len(sample) == nvalues && fresh(sample) && len(intervals) == nvalues + 1 && fresh(intervals) && base(sample) != base(intervals)
//@     invariant forall k :: 0 <= k && k <= nvalues ==> isfin(intervals[k])
//@     invariant fin(intervals[0]) == 0.0 && fin(intervals[nvalues]) == 1.0
//@     invariant forall j, k :: 0 <= j && j <= k && k <= nvalues ==> fin(intervals[j]) <= fin(intervals[k])
//@     invariant allfin(sample, i - 1)
//@     invariant fin(factor) >= 0.0 ==> (forall k :: 0 <= k && k < i - 1 ==> fin(sample[k]) >= 0.0)
//@     invariant fsum(sample, i - 1) == fin(factor) * (fin(intervals[i-1]) - fin(intervals[0]))
