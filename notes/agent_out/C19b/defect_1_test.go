package align

import "testing"

// C19: LongestORF is a query that produces a new sequence. The sequence it returns (forward strand case)
// is a sub-slice of the row of the input bag: mutating the result in place rewrites the input.
func TestC19bLongestORFSharesStorage(t *testing.T) {
	sb := NewSeqBag(NUCLEOTIDS)
	if err := sb.AddSequence("s1", "CCATGAAACCCTAGGG", ""); err != nil {
		t.Fatal(err)
	}
	before, _ := sb.GetSequence("s1")
	orf, err := sb.LongestORF(false)
	if err != nil {
		t.Fatal(err)
	}
	if orf.Sequence() != "ATGAAACCCTAG" {
		t.Fatalf("unexpected ORF %q", orf.Sequence())
	}
	// in-place mutation of the returned object
	orf.Reverse()
	after, _ := sb.GetSequence("s1")
	if after != before {
		t.Fatalf("mutating the ORF returned by LongestORF changed the input: %q -> %q", before, after)
	}
}
