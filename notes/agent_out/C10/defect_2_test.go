package align

import "testing"

// C19 (found while writing the C10 contract): RandSubAlign(length, consecutive=true) stores sub-slices of the original
// rows in the new alignment (no copy, unlike SubAlign and the non-consecutive branch): writing into the result writes
// into the original. Exposed by obligation (prop C19)
// align.(*align).RandSubAlign#post:result1 == nil ==> forall r :: ... fresh(row(result0, r).sequence)#1
func TestC19RandSubAlignSharesStorage(t *testing.T) {
	a := NewAlign(NUCLEOTIDS)
	a.AddSequence("s1", "ACGT", "")
	a.AddSequence("s2", "ACGT", "")
	sub, err := a.RandSubAlign(4, true) // the only window is 0..3
	if err != nil {
		t.Fatal(err)
	}
	if err = sub.ReplaceChar("s1", 0, 'T'); err != nil {
		t.Fatal(err)
	}
	s, _ := a.GetSequence("s1")
	if s != "ACGT" {
		t.Fatalf("writing into the random sub-alignment changed the original alignment: s1 = %s", s)
	}
}
