package align

import "testing"

// C10 / BuildBootstrap: on an alignment without sequences Length() is -1, so with frac == 1 (the default of
// `goalign build seqboot`) n = int(1.0 * -1) = -1 and make([]int, n) panics ("makeslice: len out of range").
// Exposed by obligation align.(*align).BuildBootstrap#makeslice:make([]int, n)#1
func TestC10BootstrapEmptyAlignment(t *testing.T) {
	defer func() {
		if r := recover(); r != nil {
			t.Fatalf("BuildBootstrap panicked on an empty alignment: %v", r)
		}
	}()
	a := NewAlign(NUCLEOTIDS)
	b := a.BuildBootstrap(1.0)
	if b == nil || b.NbSequences() != 0 {
		t.Fatalf("bootstrap of an empty alignment must be an empty alignment")
	}
}
