package align

import "testing"

// C10 / ShuffleSites: on an alignment without sequences Length() is -1 and rand.Perm(-1) panics
// (makeslice: len out of range). Exposed by obligations
// align.(*align).ShuffleSites#pre:math/rand.Perm:n >= 0#1 and #4
func TestC10ShuffleSitesEmptyAlignment(t *testing.T) {
	defer func() {
		if r := recover(); r != nil {
			t.Fatalf("ShuffleSites panicked on an empty alignment: %v", r)
		}
	}()
	a := NewAlign(NUCLEOTIDS)
	if rogues := a.ShuffleSites(0.5, 0.0, false); len(rogues) != 0 {
		t.Fatalf("no rogue expected")
	}
}
