package align

import "testing"

// C19 (found while writing the C10 contract): Sample / sampleSeqBag put the original rows' storage into the sample
// (no copy): writing into the sample writes into the original alignment. Exposed by obligation (prop C19)
// align.(*seqbag).sampleSeqBag#post:result1 == nil ==> forall k :: 0 <= k && k < nb ==> fresh(row(result0, k).sequence)#1
func TestC19SampleSharesStorage(t *testing.T) {
	a := NewAlign(NUCLEOTIDS)
	a.AddSequence("s1", "ACGT", "")
	s, err := a.Sample(1)
	if err != nil {
		t.Fatal(err)
	}
	if err = s.ReplaceChar("s1", 0, 'T'); err != nil {
		t.Fatal(err)
	}
	if orig, _ := a.GetSequence("s1"); orig != "ACGT" {
		t.Fatalf("writing into the sample changed the original alignment: s1 = %s", orig)
	}
}
