package align

import "testing"

// C10 / Swap: with sequences of length 0 the random position is drawn with rand.Intn(0), which panics
// ("invalid argument to Intn"). Exposed by obligation align.(*align).Swap#pre:math/rand.Intn:n > 0#1
func TestC10SwapZeroLength(t *testing.T) {
	defer func() {
		if r := recover(); r != nil {
			t.Fatalf("Swap panicked on an alignment of length 0: %v", r)
		}
	}()
	a := NewAlign(NUCLEOTIDS)
	a.AddSequence("s1", "", "")
	a.AddSequence("s2", "", "")
	if err := a.Swap(1.0, -1.0); err != nil {
		t.Fatal(err)
	}
}
