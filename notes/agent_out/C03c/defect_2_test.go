package align

import "testing"

// Defect 2: PartitionName / ModeleName document `If the code does not exist,
// then returns ""` but test `code > len(...)` instead of `code >= len(...)`:
// the first non-existing code (code == NPartitions()) panics.
func TestDefect2PartitionNameOffByOne(t *testing.T) {
	ps := NewPartitionSet(4)
	if err := ps.AddRange("p1", "GTR", 0, 3, 1); err != nil {
		t.Fatal(err)
	}
	check := func(what string, f func(int) string) {
		defer func() {
			if r := recover(); r != nil {
				t.Errorf("%s(%d) panicked: %v", what, ps.NPartitions(), r)
			}
		}()
		if s := f(ps.NPartitions()); s != "" {
			t.Errorf("%s(%d) = %q, want \"\"", what, ps.NPartitions(), s)
		}
	}
	check("PartitionName", ps.PartitionName)
	check("ModeleName", ps.ModeleName)
}
