package partition

import (
	"strings"
	"testing"
)

// Defect 1 seen from the parser (observation point of C03):
// partition.NewParser(bytes).Parse(length) must return an error or a partition map, never panic.
func TestDefect1ParserModuloOverflow(t *testing.T) {
	defer func() {
		if r := recover(); r != nil {
			t.Fatalf("Parse panicked: %v", r)
		}
	}()
	ps, err := NewParser(strings.NewReader("M,p=2-5/9223372036854775807\n")).Parse(10)
	if err != nil {
		return // an explicit error is acceptable for C03
	}
	for j := 0; j < 10; j++ {
		if c := ps.Partition(j); c < -1 || c >= ps.NPartitions() {
			t.Fatalf("site %d has code %d", j, c)
		}
	}
}
