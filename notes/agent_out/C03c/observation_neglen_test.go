package partition

import (
	"strings"
	"testing"
)

func TestNegLen(t *testing.T) {
	defer func() {
		if r := recover(); r != nil {
			t.Fatalf("Parse(-1) panicked: %v", r)
		}
	}()
	NewParser(strings.NewReader("M,p=1-2\n")).Parse(-1)
}
