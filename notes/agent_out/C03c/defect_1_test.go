package align

import (
	"fmt"
	"math"
	"testing"
)

// Defect 1 (property C03/C04): PartitionSet.AddRange panics when `i += modulo`
// overflows. Input of the partition parser: "M,p=2-5/9223372036854775807" with
// an alignment of length >= 5, i.e. AddRange("p","M",1,4,MaxInt64).
// Expected: the sites start, start+modulo, ... <= end (here only site 1) are
// assigned and nil is returned (or an explicit error) - never a panic.
func TestDefect1AddRangeModuloOverflow(t *testing.T) {
	ps := NewPartitionSet(10)
	var err error
	func() {
		defer func() {
			if r := recover(); r != nil {
				t.Fatalf("AddRange(p, M, 1, 4, MaxInt64) panicked: %v", r)
			}
		}()
		err = ps.AddRange("p", "M", 1, 4, math.MaxInt64)
	}()
	if err != nil {
		t.Fatalf("unexpected error: %v", err)
	}
	for j := 0; j < 10; j++ {
		want := -1
		if j == 1 {
			want = 0
		}
		if ps.Partition(j) != want {
			t.Fatalf("site %d: partition %d, want %d (%s)", j, ps.Partition(j), want, fmt.Sprint(ps.partitions))
		}
	}
}
