package phylip

// Defect 1 (C03): a carriage return that is not followed by a line feed makes the
// Phylip lexer call io.ExitWithMessage (= os.Exit(1)): the caller's process is
// ended instead of an error being returned by Parse.
// Obligation: io/phylip.(*Scanner).Scan#noexit:io.ExitWithMessage#1
// (the Clustal lexer has the same code: io/clustal.(*Scanner).Scan#noexit:io.ExitWithMessage#1, see defect_1b_test.go)

import (
	"os"
	"os/exec"
	"strings"
	"testing"
)

func TestDefectPhylipLoneCRExitsProcess(t *testing.T) {
	if os.Getenv("VERIF_CHILD") == "1" {
		// child: a well-behaved parser returns an error here
		for _, strict := range []bool{false, true} {
			al, err := NewParser(strings.NewReader("\rX"), strict).Parse()
			if err == nil {
				t.Fatalf("strict=%v: no error reported for a lone \\r (al=%v)", strict, al)
			}
		}
		return
	}
	cmd := exec.Command(os.Args[0], "-test.run=^TestDefectPhylipLoneCRExitsProcess$")
	cmd.Env = append(os.Environ(), "VERIF_CHILD=1")
	out, err := cmd.CombinedOutput()
	if err != nil {
		t.Fatalf("Parse(\"\\rX\") ended the process instead of returning an error: %v\n%s", err, out)
	}
}
