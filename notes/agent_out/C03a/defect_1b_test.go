package clustal

// Defect 1b (C03): same as defect 1, in the Clustal lexer.
// Obligation: io/clustal.(*Scanner).Scan#noexit:io.ExitWithMessage#1

import (
	"os"
	"os/exec"
	"strings"
	"testing"
)

func TestDefectClustalLoneCRExitsProcess(t *testing.T) {
	if os.Getenv("VERIF_CHILD") == "1" {
		al, err := NewParser(strings.NewReader("\rX")).Parse()
		if err == nil {
			t.Fatalf("no error reported for a lone \\r (al=%v)", al)
		}
		return
	}
	cmd := exec.Command(os.Args[0], "-test.run=^TestDefectClustalLoneCRExitsProcess$")
	cmd.Env = append(os.Environ(), "VERIF_CHILD=1")
	out, err := cmd.CombinedOutput()
	if err != nil {
		t.Fatalf("Parse(\"\\rX\") ended the process instead of returning an error: %v\n%s", err, out)
	}
}
