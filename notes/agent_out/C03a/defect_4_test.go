package clustal

// Defect 4 (C03): a Clustal block (other than the first) that holds more rows than the first block:
// `names[currentnbseqs]` is read before the number of rows of the block is compared with the
// first block -> index out of range panic.
// Obligation: io/clustal.(*Parser).Parse#index:names[currentnbseqs] != name#1

import (
	"strings"
	"testing"
)

func TestDefectClustalExtraRowInSecondBlock(t *testing.T) {
	defer func() {
		if r := recover(); r != nil {
			t.Fatalf("Clustal parser panicked: %v", r)
		}
	}()
	in := "CLUSTAL W (1.82) multiple sequence alignment\n\n" +
		"A    ACGT\n" +
		"B    ACGT\n" +
		"     ****\n" +
		"\n" +
		"A    ACGT\n" +
		"B    ACGT\n" +
		"C    ACGT\n" +
		"     ****\n"
	al, err := NewParser(strings.NewReader(in)).Parse()
	if err == nil {
		t.Fatalf("no error for a block with more rows than the first block (al=%v)", al)
	}
}
