package phylip

// Defect 2 (C03): strict Phylip, a 10-rune name made of multi-byte runes:
// `[]rune(name)[len(name)-1]` indexes the rune slice with the BYTE length -> index out of range panic.
// Obligation: io/phylip.(*Parser).Parse#index:[]rune(name)[len(name)-1] == eof#1

import (
	"strings"
	"testing"
)

func TestDefectPhylipStrictMultiByteName(t *testing.T) {
	defer func() {
		if r := recover(); r != nil {
			t.Fatalf("strict Phylip parser panicked: %v", r)
		}
	}()
	in := "1 4\n" + strings.Repeat("é", 10) + "ACGT\n"
	al, err := NewParser(strings.NewReader(in), true).Parse()
	if err != nil {
		t.Fatalf("unexpected error: %v", err)
	}
	if al == nil || al.NbSequences() != 1 || al.Length() != 4 {
		t.Fatalf("unexpected result %v", al)
	}
}
