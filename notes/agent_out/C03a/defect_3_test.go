package phylip

// Defect 3 (C03): the number of sequences declared in the header is used to allocate
// before it is checked against the body: `make([]string, nbseq)` panics
// ("makeslice: len out of range") for a huge count.
// Obligation: io/phylip.(*Parser).Parse#makeslice-size:make([]string, nbseq)#1

import (
	"strings"
	"testing"
)

func TestDefectPhylipHugeHeaderCount(t *testing.T) {
	for _, strict := range []bool{false, true} {
		func() {
			defer func() {
				if r := recover(); r != nil {
					t.Errorf("strict=%v: Phylip parser panicked: %v", strict, r)
				}
			}()
			al, err := NewParser(strings.NewReader("9223372036854775807 4\nA ACGT\n"), strict).Parse()
			if err == nil {
				t.Errorf("strict=%v: no error for a header that declares more sequences than the file holds (al=%v)", strict, al)
			}
		}()
	}
}
