package align

import "testing"

// C14 defect 3: NumMutationsComparedToReferenceSequence (and the mutation list) treats the wildcard and, for proteins,
// every residue case-sensitively, while nucleotides are compared after case folding (IUPAC codes): a lower-case x (or the same
// residue in another case) is counted as a substitution. Property: "N/X never count as substitutions", for mixed-case alignments.
// Obligation: align.(*seq).NumMutationsComparedToReferenceSequence#inv-pres:loop2:nummutations == c14b_nmut(s, refseq, alphabet, i) && ... [1/3]#1
func TestDefectC14NumMutationsCase(t *testing.T) {
	ref := NewSequence("ref", []uint8("AAAA"), "")
	for _, c := range []struct {
		alphabet int
		seq      string
		want     int
	}{
		{AMINOACIDS, "XAAA", 0}, // upper-case wildcard: not a mutation
		{AMINOACIDS, "xAAA", 0}, // lower-case wildcard
		{AMINOACIDS, "aAAA", 0}, // same residue in lower case
		{NUCLEOTIDS, "aAAA", 0}, // nucleotides are case-folded
		{NUCLEOTIDS, "nAAA", 0},
	} {
		s := NewSequence("s", []uint8(c.seq), "")
		n, err := s.NumMutationsComparedToReferenceSequence(c.alphabet, ref)
		if err != nil {
			t.Fatal(err)
		}
		if n != c.want {
			t.Errorf("alphabet %d, %s vs AAAA: %d mutations, expected %d", c.alphabet, c.seq, n, c.want)
		}
	}
}
