package align

import (
	"math"
	"testing"
)

// C14 defect 2 (determinism): in PSSM_NORM_LOGO mode the per-site entropy is accumulated while ranging over the
// map of rows (align.go: `for k, v := range pssm { ... entropy[i] += ... }`). Go randomises the iteration order of
// a map at every range statement and float64 addition is not associative, so the same call on the same alignment
// returns values that differ in the last bits from one call to the next.
func TestDefectC14PssmLogoNotDeterministic(t *testing.T) {
	a := NewAlign(AMINOACIDS)
	// one column holding the 20 amino acids in unequal proportions
	counts := []int{1, 2, 3, 5, 7, 11, 13, 17, 19, 23, 29, 31, 37, 41, 43, 47, 53, 59, 61, 67}
	n := 0
	for k, c := range counts {
		for j := 0; j < c; j++ {
			if err := a.AddSequenceChar("s"+string(rune('a'+k))+"_"+string(rune('0'+j%10))+string(rune('0'+(j/10)%10)), []uint8{stdaminoacid[k], stdaminoacid[(k+j)%20], stdaminoacid[(k*j)%20]}, ""); err != nil {
				t.Fatal(err)
			}
			n++
		}
	}
	ref, err := a.Pssm(false, 0.5, PSSM_NORM_LOGO)
	if err != nil {
		t.Fatal(err)
	}
	for call := 0; call < 300; call++ {
		p, err := a.Pssm(false, 0.5, PSSM_NORM_LOGO)
		if err != nil {
			t.Fatal(err)
		}
		for k, row := range ref {
			for i := range row {
				if math.Float64bits(row[i]) != math.Float64bits(p[k][i]) {
					t.Fatalf("call %d: pssm[%c][%d] = %.20g, first call gave %.20g (same alignment, same arguments)", call, k, i, p[k][i], row[i])
				}
			}
		}
	}
}
