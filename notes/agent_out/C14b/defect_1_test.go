package align

import "testing"

// C14 defect 1: Pssm on an alignment without sequences panics (Length() is -1 when there is no row,
// and Pssm calls make([]float64, a.Length())). The function has an error result: it must report the
// problem instead of crashing.
// Obligation: align.(*align).Pssm#makeslice:make([]float64, a.Length())#2 (verdict sat)
func TestDefectC14PssmEmptyAlignment(t *testing.T) {
	defer func() {
		if r := recover(); r != nil {
			t.Fatalf("Pssm on an alignment without sequences panicked: %v", r)
		}
	}()
	a := NewAlign(NUCLEOTIDS)
	if _, err := a.Pssm(false, 0.0, PSSM_NORM_NONE); err == nil {
		t.Fatalf("Pssm on an alignment without sequences: expected an error")
	}
}
