package dna

import (
	"math"
	"testing"

	"github.com/evolbioinfo/goalign/align"
)

// Defect 1: probaNt divides the nucleotide counts by a total that also counts the gap / non-nucleotide cells of the
// selected columns (`total += w` sits outside `if isNuc(...)`), so the base frequencies do not sum to 1 as soon as a
// kept column holds a gap (always possible without --rm-gaps). The models that use pi are then wrong: F81's
// b1 = 1 - sum(pi^2) is inflated, and F81 with equal base frequencies no longer coincides with JC69.
func TestDefectProbaNtSumsToOne(t *testing.T) {
	al := align.NewAlign(align.NUCLEOTIDS)
	// each of A, C, G, T occurs 6 times; 8 gap cells in kept columns
	al.AddSequence("s1", "ACGTACGTACGT----", "")
	al.AddSequence("s2", "CAGTACGTACGT----", "")
	m := NewF81Model(false)
	if err := m.InitModel(al, nil, false, 0); err != nil {
		t.Fatal(err)
	}
	sum := 0.0
	for _, p := range m.pi {
		sum += p
	}
	if math.Abs(sum-1) > 1e-12 {
		t.Errorf("base frequencies %v sum to %v, want 1", m.pi, sum)
	}
	if math.Abs(m.b1-0.75) > 1e-12 {
		t.Errorf("F81 b1 = %v with equal base frequencies, want 0.75", m.b1)
	}
	// equal base frequencies: F81 is JC69
	jc := NewJCModel(false)
	if err := jc.InitModel(al, nil, false, 0); err != nil {
		t.Fatal(err)
	}
	s1, _ := m.Sequence(0)
	s2, _ := m.Sequence(1)
	d81, _ := m.Distance(s1, s2, nil)
	djc, _ := jc.Distance(s1, s2, nil)
	if math.Abs(d81-djc) > 1e-12 {
		t.Errorf("F81 distance %v differs from JC69 distance %v although the base frequencies are equal", d81, djc)
	}
}
