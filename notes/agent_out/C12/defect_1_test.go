package align

import "testing"

// C12 defect 1: RemoveCharacterSites with ignoreNs uses the wildcard of the
// OTHER alphabet (X/x on nucleotide alignments, N/n on protein alignments), so
// the N (resp. X) rows are still counted in the denominator.
func TestDefectC12IgnoreNsWrongAlphabet(t *testing.T) {
	// nucleotide column N N A A, character A, cutoff 1, ignoreNs: 2 of the 2 counted rows are A -> must be removed
	a := NewAlign(NUCLEOTIDS)
	a.AddSequence("s0", "NC", "")
	a.AddSequence("s1", "NC", "")
	a.AddSequence("s2", "AC", "")
	a.AddSequence("s3", "AC", "")
	_, _, kept, rm := a.RemoveCharacterSites([]uint8{'A'}, 1.0, false, false, false, true, false)
	if len(rm) != 1 || rm[0] != 0 || len(kept) != 1 || kept[0] != 1 || a.Length() != 1 {
		t.Errorf("nucleotides: column 'NNAA' with ignoreNs, char A, cutoff 1 should be removed: kept=%v rm=%v length=%d", kept, rm, a.Length())
	}
	// protein column X X A A, same question
	p := NewAlign(AMINOACIDS)
	p.AddSequence("s0", "XC", "")
	p.AddSequence("s1", "XC", "")
	p.AddSequence("s2", "AC", "")
	p.AddSequence("s3", "AC", "")
	_, _, kept, rm = p.RemoveCharacterSites([]uint8{'A'}, 1.0, false, false, false, true, false)
	if len(rm) != 1 || rm[0] != 0 || len(kept) != 1 || kept[0] != 1 || p.Length() != 1 {
		t.Errorf("proteins: column 'XXAA' with ignoreNs, char A, cutoff 1 should be removed: kept=%v rm=%v length=%d", kept, rm, p.Length())
	}
	// and the converse: on nucleotides an X is NOT a wildcard: column X X A A must stay (2 of 4)
	b := NewAlign(NUCLEOTIDS)
	b.AddSequence("s0", "XC", "")
	b.AddSequence("s1", "XC", "")
	b.AddSequence("s2", "AC", "")
	b.AddSequence("s3", "AC", "")
	_, _, kept, rm = b.RemoveCharacterSites([]uint8{'A'}, 1.0, false, false, false, true, false)
	if len(rm) != 0 || len(kept) != 2 {
		t.Errorf("nucleotides: column 'XXAA' with ignoreNs, char A, cutoff 1 should be kept: kept=%v rm=%v", kept, rm)
	}
}
