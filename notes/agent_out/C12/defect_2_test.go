package align

import "testing"

// C12 defect 2: RemoveCharacterSites (and RemoveGapSites) on an alignment without
// sequences panics: Length() is -1 and make([]int, 0, a.Length()) is out of range.
func TestDefectC12RemoveSitesEmpty(t *testing.T) {
	defer func() {
		if r := recover(); r != nil {
			t.Errorf("RemoveGapSites on an empty alignment panicked: %v", r)
		}
	}()
	a := NewAlign(NUCLEOTIDS)
	first, last, kept, rm := a.RemoveGapSites(0.5, false)
	if first != 0 || last != 0 || len(kept) != 0 || len(rm) != 0 || a.Length() != -1 {
		t.Errorf("unexpected result on empty alignment: %d %d %v %v %d", first, last, kept, rm, a.Length())
	}
}
