package align

import "testing"

// Split: a declared partition without any site (e.g. the reversed interval "M,p2=4-3" of a partition file, which
// PartitionSet.AddRange accepts without assigning a site) yields an alignment that has lost every sequence,
// whereas the other site extractions (SubAlign(start, 0), SelectSites([])) keep the rows and their names with 0 columns.
func TestDefect1SplitEmptyPartitionLosesRows(t *testing.T) {
	a := NewAlign(NUCLEOTIDS)
	a.AddSequence("s1", "ACGT", "")
	a.AddSequence("s2", "TTGA", "")
	ps := NewPartitionSet(4)
	if err := ps.AddRange("p1", "M", 0, 3, 1); err != nil {
		t.Fatal(err)
	}
	if err := ps.AddRange("p2", "M", 3, 2, 1); err != nil { // "4-3": no site, no error
		t.Fatal(err)
	}
	if err := ps.CheckSites(); err != nil {
		t.Fatal(err)
	}
	als, err := a.Split(ps)
	if err != nil {
		t.Fatal(err)
	}
	if len(als) != 2 {
		t.Fatalf("expected 2 blocks, got %d", len(als))
	}
	for p, b := range als {
		if b.NbSequences() != a.NbSequences() {
			t.Errorf("block %d: %d sequences, expected %d (names and row order must be kept)", p, b.NbSequences(), a.NbSequences())
			continue
		}
		for r := 0; r < a.NbSequences(); r++ {
			n1, _ := a.GetSequenceNameById(r)
			n2, _ := b.GetSequenceNameById(r)
			if n1 != n2 {
				t.Errorf("block %d row %d: name %q, expected %q", p, r, n2, n1)
			}
		}
	}
	if als[1].Length() != 0 {
		t.Errorf("empty block: length %d, expected 0", als[1].Length())
	}
}
