package align

import "testing"

// Concat with an alignment without sequences on either side: Length() is -1 for an empty alignment and
// strings.Repeat(string(GAP), -1) panics ("strings: negative Repeat count") instead of padding with nothing.
func TestDefectC04bConcatEmpty(t *testing.T) {
	mk := func() *align {
		a := NewAlign(NUCLEOTIDS)
		a.AddSequence("s1", "ACGT", "")
		a.AddSequence("s2", "AC-T", "")
		return a
	}
	try := func(what string, f func() error) {
		defer func() {
			if r := recover(); r != nil {
				t.Errorf("%s: panic: %v", what, r)
			}
		}()
		if err := f(); err != nil {
			t.Logf("%s: error %v", what, err)
		}
	}
	// empty receiver, non-empty argument: the result should be the argument
	try("empty.Concat(nonempty)", func() error {
		e := NewAlign(NUCLEOTIDS)
		err := e.Concat(mk())
		if err == nil && (e.NbSequences() != 2 || e.Length() != 4) {
			t.Errorf("empty.Concat(nonempty): %d sequences of length %d", e.NbSequences(), e.Length())
		}
		return err
	})
	// non-empty receiver, empty argument: the receiver should be unchanged
	try("nonempty.Concat(empty)", func() error {
		a := mk()
		err := a.Concat(NewAlign(NUCLEOTIDS))
		if err == nil && (a.NbSequences() != 2 || a.Length() != 4) {
			t.Errorf("nonempty.Concat(empty): %d sequences of length %d", a.NbSequences(), a.Length())
		}
		return err
	})
}
