package align

import "testing"

// RefSites: the documentation promises an error when a coordinate is outside the reference sequence
// ("<0 or > sequence length without gaps"); the code compares with the ALIGNMENT length instead, so a site
// between the ungapped length and the alignment length is silently dropped (err == nil, shorter result).
func TestDefectC04bRefSitesOutsideReference(t *testing.T) {
	a := NewAlign(NUCLEOTIDS)
	a.AddSequence("ref", "AC--GT", "") // 4 residues, alignment length 6
	a.AddSequence("s2", "ACGTGT", "")
	for _, sites := range [][]int{{4}, {5}, {0, 5}} {
		res, err := a.RefSites("ref", sites)
		if err == nil {
			t.Errorf("RefSites(ref, %v) on a reference of 4 residues: err == nil, result %v (%d of %d sites)", sites, res, len(res), len(sites))
		}
	}
	// a site outside the alignment is rejected (this works)
	if _, err := a.RefSites("ref", []int{6}); err == nil {
		t.Errorf("RefSites(ref, [6]): no error")
	}
	// inside the reference: fine
	if res, err := a.RefSites("ref", []int{3, 2}); err != nil || len(res) != 2 || res[0] != 4 || res[1] != 5 {
		t.Errorf("RefSites(ref, [3 2]) = %v, %v", res, err)
	}
}
