package align

import (
	"math"
	"testing"
)

// RefCoordinates: a request far outside the reference (refstart + reflen overflows int) is accepted:
// err == nil and the "window" (L, 0) is returned instead of an error.
func TestDefectC04bRefCoordinatesOverflow(t *testing.T) {
	a := NewAlign(NUCLEOTIDS)
	a.AddSequence("ref", "AC--GT", "")
	a.AddSequence("s2", "ACGTGT", "")
	for _, tc := range [][2]int{{math.MaxInt64, 1}, {math.MaxInt64 - 1, 5}, {3, math.MaxInt64}} {
		start, l, err := a.RefCoordinates("ref", tc[0], tc[1])
		if err == nil {
			t.Errorf("RefCoordinates(ref, %d, %d) on a reference of 4 residues: err == nil, window (%d, %d)", tc[0], tc[1], start, l)
		}
	}
}
