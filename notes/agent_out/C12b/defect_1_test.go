package align

import "testing"

// RemoveMajorityCharacterSites documents (as do RemoveCharacterSites, RemoveCharacterSeqs and the
// command line help of "goalign clean sites") that a cutoff outside [0,1] is treated as 0, i.e. every
// column in which the majority character occurs at least once is removed. The function never clamps the
// cutoff: with a cutoff > 1 or < 0 it removes nothing (while RemoveCharacterSites removes the columns).
func TestDefectC12bMajorityCutoffNotClamped(t *testing.T) {
	for _, cutoff := range []float64{2, -1} {
		a := NewAlign(NUCLEOTIDS)
		a.AddSequence("s1", "ACGT", "")
		a.AddSequence("s2", "ACGA", "")
		a.AddSequence("s3", "AGGC", "")
		first, last, kept, rm := a.RemoveMajorityCharacterSites(cutoff, false, false, false)
		if a.Length() != 0 || len(rm) != 4 || len(kept) != 0 || first != 4 || last != 4 {
			t.Errorf("cutoff %v (documented: treated as 0, every column removed): length=%d first=%d last=%d kept=%v rm=%v",
				cutoff, a.Length(), first, last, kept, rm)
		}
		// the sibling function does what the documentation says
		b := NewAlign(NUCLEOTIDS)
		b.AddSequence("s1", "AAAA", "")
		b.AddSequence("s2", "AAAA", "")
		b.RemoveCharacterSites([]uint8{'A'}, cutoff, false, false, false, false, false)
		if b.Length() != 0 {
			t.Errorf("RemoveCharacterSites cutoff %v: length=%d", cutoff, b.Length())
		}
	}
}
