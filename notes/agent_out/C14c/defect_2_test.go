package align

import "testing"

// Property C14: the statistics are defined for every alignment and a bad input is an error, not a crash.
// CountDifferences allocates make([]map[string]int, a.NbSequences()-1) BEFORE testing a.NbSequences() < 2:
// on an alignment without sequences the size is -1 and the call panics ("makeslice: len out of range").
func TestDefectC14CountDifferencesEmptyAlignment(t *testing.T) {
	defer func() {
		if r := recover(); r != nil {
			t.Errorf("CountDifferences panicked on an alignment without sequences: %v", r)
		}
	}()
	a := NewAlign(NUCLEOTIDS)
	alldiffs, diffs := a.CountDifferences()
	if len(alldiffs) != 0 || len(diffs) != 0 {
		t.Errorf("expected empty results, got %v %v", alldiffs, diffs)
	}
}
