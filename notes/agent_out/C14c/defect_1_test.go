package align

import "testing"

// Property C14: parsimony-informative sites are those with at least two characters occurring at least twice each among
// the residues that are not gaps nor the wildcard N/X ("X, N and GAPS are not considered", doc of InformativeSites),
// for every alignment including mixed case. The wildcard test of InformativeSites is case-sensitive while the counts
// are case-folded: a lower-case 'n' (resp. 'x') is counted as the character 'N' (resp. 'X').
func TestDefectC14InformativeSitesLowerCaseWildcard(t *testing.T) {
	// upper case: N N A A -> only one counted character (A): not informative
	up := NewAlign(NUCLEOTIDS)
	up.AddSequence("s1", "N", "")
	up.AddSequence("s2", "N", "")
	up.AddSequence("s3", "A", "")
	up.AddSequence("s4", "A", "")
	if got := up.InformativeSites(); len(got) != 0 {
		t.Fatalf("upper case column NNAA: informative sites %v, expected none", got)
	}
	// same column written in lower case: must give the same answer
	lo := NewAlign(NUCLEOTIDS)
	lo.AddSequence("s1", "n", "")
	lo.AddSequence("s2", "n", "")
	lo.AddSequence("s3", "a", "")
	lo.AddSequence("s4", "a", "")
	if got := lo.InformativeSites(); len(got) != 0 {
		t.Errorf("lower case column nnaa: informative sites %v, expected none (n is the wildcard)", got)
	}
	// proteins: x x A A
	pr := NewAlign(AMINOACIDS)
	pr.AddSequence("s1", "x", "")
	pr.AddSequence("s2", "x", "")
	pr.AddSequence("s3", "A", "")
	pr.AddSequence("s4", "A", "")
	if got := pr.InformativeSites(); len(got) != 0 {
		t.Errorf("protein column xxAA: informative sites %v, expected none (x is the wildcard)", got)
	}
}
