package align

import "testing"

// TrimNames updates the name index row by row (delete old name, insert new name). When the new name of
// an earlier row equals the still-current name of a later row, the later row's step deletes the entry of
// the earlier row: afterwards a row of the list cannot be found by its own name.
// Input: the rows "abc02", "abc01" (e.g. an alignment trimmed before, then reordered), size 5.
func TestC01bTrimNamesIndex(t *testing.T) {
	a := NewAlign(NUCLEOTIDS)
	a.AddSequence("abc02", "ACGT", "")
	a.AddSequence("abc01", "TTTT", "")
	namemap := make(map[string]string)
	if err := a.TrimNames(namemap, 5); err != nil {
		t.Fatalf("unexpected error: %v", err)
	}
	seen := make(map[string]bool)
	for i := 0; i < a.NbSequences(); i++ {
		name, _ := a.GetSequenceNameById(i)
		if seen[name] {
			t.Fatalf("duplicate name %q after TrimNames", name)
		}
		seen[name] = true
		byIndex, _ := a.GetSequenceById(i)
		byName, ok := a.GetSequence(name)
		if !ok {
			t.Errorf("row %d is named %q but GetSequence(%q) does not find it", i, name, name)
		} else if byName != byIndex {
			t.Errorf("row %d (%q): lookup by name gives %q, lookup by index gives %q", i, name, byName, byIndex)
		}
		if id := a.GetSequenceIdByName(name); id != i {
			t.Errorf("GetSequenceIdByName(%q) = %d, want %d", name, id, i)
		}
	}
	// a second mutating operation driven by the name index
	a.Sort()
	for i := 0; i < a.NbSequences(); i++ {
		if a.seqs[i] == nil {
			t.Errorf("row %d is nil after Sort (Sort looks every name up in the stale index)", i)
		}
	}
}
