package align

import "testing"

// Concat pads missing rows with strings.Repeat("-", x.Length()); Length() of an alignment without
// sequences is -1, so concatenating with an empty alignment (on either side) panics
// ("strings: negative Repeat count") instead of giving the other alignment.
func concatNoPanic(t *testing.T, what string, a, c Alignment) (err error) {
	defer func() {
		if r := recover(); r != nil {
			t.Errorf("%s: Concat panicked: %v", what, r)
		}
	}()
	return a.Concat(c)
}

func TestC01bConcatEmpty(t *testing.T) {
	// non-empty receiver, empty argument
	a := NewAlign(NUCLEOTIDS)
	a.AddSequence("s1", "ACGT", "")
	a.AddSequence("s2", "TTTT", "")
	if err := concatNoPanic(t, "a.Concat(empty)", a, NewAlign(NUCLEOTIDS)); err != nil {
		t.Errorf("a.Concat(empty): unexpected error %v", err)
	}
	if a.NbSequences() != 2 || a.Length() != 4 {
		t.Errorf("a.Concat(empty): got %d sequences of length %d, want 2 of length 4", a.NbSequences(), a.Length())
	}
	// empty receiver, non-empty argument
	e := NewAlign(NUCLEOTIDS)
	c := NewAlign(NUCLEOTIDS)
	c.AddSequence("s1", "ACGT", "")
	c.AddSequence("s2", "TTTT", "")
	if err := concatNoPanic(t, "empty.Concat(c)", e, c); err != nil {
		t.Errorf("empty.Concat(c): unexpected error %v", err)
	}
	if e.NbSequences() != 2 || e.Length() != 4 {
		t.Errorf("empty.Concat(c): got %d sequences of length %d, want 2 of length 4", e.NbSequences(), e.Length())
	}
	for i := 0; i < e.NbSequences(); i++ {
		s, _ := e.GetSequenceById(i)
		w, _ := c.GetSequenceById(i)
		if s != w {
			t.Errorf("empty.Concat(c): row %d is %q, want %q", i, s, w)
		}
	}
}
