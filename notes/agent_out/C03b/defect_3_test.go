package nexus

import (
	"strings"
	"testing"
	"time"
)

// Defect 3 (C03, termination): an unterminated comment "[ ..." makes the Nexus parser spin forever:
// (*Parser).consumeComment loops `for outtoken != CLOSEBRACK`, sets err on EOF but does not leave the loop,
// and the scanner returns EOF for ever.
// Exposed by obligation  io/nexus.(*Parser).consumeComment#decreases:loop1:nxM(p)
func TestVerifNexusUnterminatedCommentHangs(t *testing.T) {
	inputs := []string{
		"#NEXUS\n[ comment",
		"#NEXUS\nBEGIN TAXA;\n[ truncated",
		"#NEXUS\nBEGIN DATA;\nMATRIX\n[ truncated",
	}
	for _, in := range inputs {
		done := make(chan struct{})
		go func() {
			defer close(done)
			defer func() { _ = recover() }()
			_, _ = NewParser(strings.NewReader(in)).Parse()
		}()
		select {
		case <-done:
		case <-time.After(3 * time.Second):
			t.Fatalf("Parse(%q) did not terminate within 3s (infinite loop in consumeComment on an unterminated comment)", in)
		}
	}
}
