package stockholm

import (
	"strings"
	"testing"
	"time"
)

// Defect 1 (C03, termination): a markup line ("#...") that is the last line of the input and is not
// terminated by a newline makes (*Parser).Parse spin forever: the skip loop
//     for tok != ENDOFLINE { tok, _ = p.scanIgnoreWhitespace() }
// never sees ENDOFLINE once the scanner is at end of input (it returns EOF for ever).
// Exposed by obligation  io/stockholm.(*Parser).Parse#decreases:loop2
func TestVerifStockholmMarkupAtEOFHangs(t *testing.T) {
	inputs := []string{
		"# STOCKHOLM 1.0\n#=GF ID toto",
		"# STOCKHOLM 1.0\nseq1 ACGT\n#",
	}
	for _, in := range inputs {
		done := make(chan struct{})
		go func() {
			defer close(done)
			defer func() { _ = recover() }()
			_, _ = NewParser(strings.NewReader(in)).Parse()
		}()
		select {
		case <-done:
		case <-time.After(3 * time.Second):
			t.Fatalf("Parse(%q) did not terminate within 3s (infinite loop in the markup skip at end of file)", in)
		}
	}
}
