package stockholm

import (
	"strings"
	"testing"
)

// Defect 2 (C03, result): a Stockholm file without any sequence is reported as a success with an
// EMPTY alignment: the emptiness test is `al.Length() == 0`, but the length of an alignment without
// sequence is -1 (align.NewAlign), so the test never fires.
// Exposed by obligation  io/stockholm.(*Parser).Parse#post:err == nil ==> nrows(al) >= 1 && al.length >= 0
func TestVerifStockholmEmptyAlignmentIsSuccess(t *testing.T) {
	for _, in := range []string{"# STOCKHOLM 1.0\n//", "# STOCKHOLM 1.0\n//\n", "# STOCKHOLM 1.0\n", "# STOCKHOLM 1.0"} {
		al, err := NewParser(strings.NewReader(in)).Parse()
		if err == nil {
			n, l := -99, -99
			if al != nil {
				n, l = al.NbSequences(), al.Length()
			}
			if al == nil || n == 0 || l <= 0 {
				t.Errorf("Parse(%q): err == nil but the alignment is empty (nseq=%d, length=%d)", in, n, l)
			}
		}
	}
}
